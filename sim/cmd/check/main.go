// Command check is the driver of the C18 verification (/verif/DESIGN.md §2.2, §4):
//
//	check C18 quick|thorough      run the check against /repo's current working tree
//	check replay <file>           re-execute a replay file against /repo's current working tree
//
// It copies the working tree to a scratch directory, instruments the copy, builds the
// simulator twice (plain, -race), fans the seeded runs out over the cores, merges the
// results, confirms and reports violations, writes the evidence file, and removes the
// scratch directory on every exit path.
//
// Exit status: 0 the property held on everything explored; 1 after a VIOLATION line;
// 2 build / instrumentation / watchdog / self-test trouble (never dressed up as either).
package main

import (
	"bytes"
	"encoding/binary"
	"encoding/hex"
	"encoding/json"
	"fmt"
	"io"
	"os"
	"os/exec"
	"os/signal"
	"path/filepath"
	"regexp"
	"runtime"
	"sort"
	"strconv"
	"strings"
	"sync"
	"sync/atomic"
	"syscall"
	"time"
)

const repoDir = "/repo"

// verifDir is where MANIFEST.json, sim/, evidence/ and replays/ live (the directory of the
// `check` script; /verif unless the script is run from a snapshot).
var verifDir = func() string {
	if d := os.Getenv("VERIF_DIR"); d != "" {
		return d
	}
	return "/verif"
}()

type tierCfg struct {
	name          string
	corrupt       int
	churn         int
	large         int
	growReplace   int // 1: also try replacing each token by an identifier
	growMax       int
	serialSeconds float64
	serialProcs   int
	selfRuns      int
	pairsM        int
	firstPer      int
	preemptPairs  int
	preemptCap    int
	burstSeconds  float64
	burstMin      int
	burstProcs    int
	hardCap       time.Duration
}

var tiers = map[string]tierCfg{
	"quick": {name: "quick", corrupt: 300, churn: 1200, large: 18, growReplace: 0, growMax: 600, serialSeconds: 20, serialProcs: 16, selfRuns: 200, pairsM: 64, firstPer: 3, preemptPairs: 80, preemptCap: 300,
		burstSeconds: 12, burstMin: 1200, burstProcs: 6, hardCap: 15 * time.Minute},
	"thorough": {name: "thorough", corrupt: 1500, churn: 6000, large: 32, growReplace: 1, growMax: 3000, serialSeconds: 720, serialProcs: 16, selfRuns: 5000, pairsM: 420, firstPer: 12, preemptPairs: 1000, preemptCap: 600,
		burstSeconds: 240, burstMin: 30000, burstProcs: 6, hardCap: 150 * time.Minute},
}

var (
	scratch  string
	cleanups []func()
	cmu      sync.Mutex
)

func cleanup() {
	killLive()
	cmu.Lock()
	defer cmu.Unlock()
	for _, f := range cleanups {
		f()
	}
	cleanups = nil
	if scratch != "" {
		if os.Getenv("VERIF_KEEP_SCRATCH") != "" {
			fmt.Println("scratch kept (VERIF_KEEP_SCRATCH):", scratch)
		} else {
			os.RemoveAll(scratch)
		}
		scratch = ""
	}
}

func trouble(f string, a ...any) {
	fmt.Printf("HARNESS-TROUBLE: "+f+"\n", a...)
	cleanup()
	os.Exit(2)
}

func goEnv() []string {
	env := os.Environ()
	set := func(k, v string) {
		for i, e := range env {
			if strings.HasPrefix(e, k+"=") {
				env[i] = k + "=" + v
				return
			}
		}
		env = append(env, k+"="+v)
	}
	set("GOFLAGS", "-mod=mod")
	set("GOPROXY", "off")
	set("GOSUMDB", "off")
	set("GOTOOLCHAIN", "local")
	set("GOWORK", "off")
	return env
}

func main() {
	if len(os.Args) == 2 && os.Args[1] == "prewarm" {
		// setup: build both simulators once so that the Go build cache is warm
		b := prepare(true, true)
		fmt.Printf("prewarm: instrumented %v sites, built in %.1fs\n", b.instr["sites"], b.buildS)
		cleanup()
		return
	}
	if len(os.Args) < 3 {
		fmt.Fprintln(os.Stderr, "usage: check C18 quick|thorough | check replay <file> | check prewarm")
		os.Exit(2)
	}
	sig := make(chan os.Signal, 2)
	signal.Notify(sig, syscall.SIGINT, syscall.SIGTERM)
	go func() {
		<-sig
		fmt.Println("HARNESS-TROUBLE: interrupted")
		cleanup()
		os.Exit(2)
	}()
	switch os.Args[1] {
	case "replay":
		os.Exit(doReplay(os.Args[2]))
	case "C18":
		tier := os.Args[2]
		if t := os.Getenv("VERIF_TIER"); t != "" && len(os.Args) == 3 && false {
			tier = t
		}
		cfg, ok := tiers[tier]
		if !ok {
			fmt.Fprintf(os.Stderr, "unknown tier %q\n", tier)
			os.Exit(2)
		}
		os.Exit(doCheck(cfg))
	default:
		fmt.Fprintf(os.Stderr, "unknown property %q (claimed: C18)\n", os.Args[1])
		os.Exit(2)
	}
}

func seedFromEnv() uint64 {
	s := os.Getenv("VERIF_SEED")
	if s == "" {
		return 1
	}
	v, err := strconv.ParseUint(s, 0, 64)
	if err != nil {
		iv, err2 := strconv.ParseInt(s, 0, 64)
		if err2 != nil {
			trouble("VERIF_SEED=%q is not an integer", s)
		}
		v = uint64(iv)
	}
	return v
}

// ---- build ---------------------------------------------------------------------------------------------

type build struct {
	serialBin, raceBin string
	rootSerial         string // instrumented copy used by the serial binary (corpus is read from here)
	rootRace           string
	instr              map[string]any
	buildS             float64
	syncRepointed      bool
}

func mkScratch() {
	base := os.Getenv("TMPDIR")
	if base == "" || strings.HasPrefix(base, repoDir) || strings.HasPrefix(base, verifDir) {
		base = "/var/tmp"
	}
	d, err := os.MkdirTemp(base, "verif-c18-")
	if err != nil {
		trouble("mktemp: %v", err)
	}
	scratch = d
}

func copyTree(src, dst string) error {
	skipTop := map[string]bool{".git": true, "images": true}
	return filepath.Walk(src, func(p string, info os.FileInfo, err error) error {
		if err != nil {
			return err
		}
		rel, _ := filepath.Rel(src, p)
		if rel == "." {
			return os.MkdirAll(dst, 0o755)
		}
		if skipTop[strings.Split(rel, string(filepath.Separator))[0]] {
			if info.IsDir() {
				return filepath.SkipDir
			}
			return nil
		}
		out := filepath.Join(dst, rel)
		if info.IsDir() {
			return os.MkdirAll(out, 0o755)
		}
		if !info.Mode().IsRegular() {
			return nil
		}
		if strings.HasPrefix(rel, "testdata"+string(filepath.Separator)+"result") {
			return nil
		}
		b, err := os.ReadFile(p)
		if err != nil {
			return err
		}
		return os.WriteFile(out, b, 0o644)
	})
}

func run(dir string, env []string, name string, args ...string) ([]byte, error) {
	cmd := exec.Command(name, args...)
	cmd.Dir = dir
	cmd.Env = env
	var out bytes.Buffer
	cmd.Stdout = &out
	cmd.Stderr = &out
	err := cmd.Run()
	return out.Bytes(), err
}

func ensureTool(name string) string {
	bin := filepath.Join(verifDir, "bin", name)
	src := filepath.Join(verifDir, "sim", "cmd", name)
	need := false
	bi, err := os.Stat(bin)
	if err != nil {
		need = true
	} else {
		filepath.Walk(src, func(p string, info os.FileInfo, err error) error {
			if err == nil && !info.IsDir() && info.ModTime().After(bi.ModTime()) {
				need = true
			}
			return nil
		})
	}
	if need {
		out, err := run(filepath.Join(verifDir, "sim"), goEnv(), "go", "build", "-o", bin, "./cmd/"+name)
		if err != nil {
			trouble("building %s: %v\n%s", name, err, out)
		}
	}
	return bin
}

func prepare(needRace, needSerial bool) *build {
	t0 := time.Now()
	mkScratch()
	b := &build{}
	instrument := ensureTool("instrument")
	simDir := filepath.Join(verifDir, "sim")
	mk := func(tag string, repoint bool) (string, map[string]any) {
		root := filepath.Join(scratch, "repo-"+tag)
		if err := copyTree(repoDir, root); err != nil {
			trouble("copying %s: %v", repoDir, err)
		}
		args := []string{"-root", root, "-rt", filepath.Join(simDir, "rt", "verifsimrt"), "-sync", filepath.Join(simDir, "rt", "verifsync")}
		if repoint {
			args = append(args, "-repoint-sync")
		}
		out, err := run(scratch, goEnv(), instrument, args...)
		if err != nil {
			trouble("instrumenting the copy of %s failed (does the tree parse?): %v\n%s", repoDir, err, out)
		}
		var m map[string]any
		if err := json.Unmarshal(out, &m); err != nil {
			trouble("instrument output: %v\n%s", err, out)
		}
		return root, m
	}
	b.rootSerial, b.instr = mk("serial", true)
	if l, _ := b.instr["sync_repointed"].([]any); len(l) > 0 {
		b.syncRepointed = true
		b.rootRace, _ = mk("race", false)
	} else {
		b.rootRace = b.rootSerial
	}
	gosum, _ := os.ReadFile(filepath.Join(repoDir, "go.sum"))
	mkHarness := func(tag, root string) string {
		h := filepath.Join(scratch, "h-"+tag)
		os.MkdirAll(h, 0o755)
		ents, _ := os.ReadDir(filepath.Join(simDir, "harness"))
		for _, e := range ents {
			if strings.HasSuffix(e.Name(), ".go") {
				src, _ := os.ReadFile(filepath.Join(simDir, "harness", e.Name()))
				os.WriteFile(filepath.Join(h, e.Name()), src, 0o644)
			}
		}
		mod := "module verifharness\n\ngo 1.23.0\n\nrequire github.com/cloudspannerecosystem/memefish v0.0.0\n\nreplace github.com/cloudspannerecosystem/memefish => " + root + "\n"
		os.WriteFile(filepath.Join(h, "go.mod"), []byte(mod), 0o644)
		os.WriteFile(filepath.Join(h, "go.sum"), gosum, 0o644)
		return h
	}
	var wg sync.WaitGroup
	var errS, errR error
	var outS, outR []byte
	if needSerial {
		h := mkHarness("serial", b.rootSerial)
		b.serialBin = filepath.Join(scratch, "simrun")
		wg.Add(1)
		go func() {
			defer wg.Done()
			outS, errS = run(h, goEnv(), "go", "build", "-trimpath", "-o", b.serialBin, ".")
		}()
	}
	if needRace {
		h := mkHarness("race", b.rootRace)
		b.raceBin = filepath.Join(scratch, "simrun-race")
		wg.Add(1)
		go func() {
			defer wg.Done()
			outR, errR = run(h, goEnv(), "go", "build", "-race", "-trimpath", "-o", b.raceBin, ".")
		}()
	}
	wg.Wait()
	if errS != nil {
		trouble("building the simulator against the instrumented copy failed (does the tree compile?): %v\n%s", errS, outS)
	}
	if errR != nil {
		trouble("building the -race simulator against the instrumented copy failed: %v\n%s", errR, outR)
	}
	b.buildS = time.Since(t0).Seconds()
	return b
}

// ---- processes -------------------------------------------------------------------------------------------

type proc struct {
	name    string
	args    []string
	env     []string
	bin     string
	outFile string
	stderr  bytes.Buffer
	err     error
	exit    int
	timeout time.Duration
	killed  bool
	wall    time.Duration
}

var (
	liveMu sync.Mutex
	live   = map[*exec.Cmd]bool{}
)

// killLive kills every child process that is still running (no orphans on any exit path).
func killLive() {
	liveMu.Lock()
	defer liveMu.Unlock()
	for c := range live {
		if c.Process != nil {
			c.Process.Kill()
		}
	}
}

func (p *proc) run() {
	t0 := time.Now()
	defer func() { p.wall = time.Since(t0) }()
	cmd := exec.Command(p.bin, p.args...)
	cmd.Env = append(goEnv(), p.env...)
	cmd.Stderr = &p.stderr
	cmd.Stdout = &p.stderr
	if err := cmd.Start(); err != nil {
		p.err = err
		p.exit = -1
		return
	}
	liveMu.Lock()
	live[cmd] = true
	liveMu.Unlock()
	defer func() {
		liveMu.Lock()
		delete(live, cmd)
		liveMu.Unlock()
	}()
	done := make(chan error, 1)
	go func() { done <- cmd.Wait() }()
	select {
	case err := <-done:
		p.err = err
	case <-time.After(p.timeout):
		cmd.Process.Kill()
		p.err = <-done
		p.killed = true
	}
	if cmd.ProcessState != nil {
		p.exit = cmd.ProcessState.ExitCode()
	}
}

func slowest(ps []*proc) string {
	var best *proc
	for _, p := range ps {
		if best == nil || p.wall > best.wall {
			best = p
		}
	}
	if best == nil {
		return ""
	}
	return fmt.Sprintf("%s %.1fs", best.name, best.wall.Seconds())
}

func runAll(ps []*proc, parallel int) {
	sem := make(chan struct{}, parallel)
	var wg sync.WaitGroup
	for _, p := range ps {
		wg.Add(1)
		go func(p *proc) {
			defer wg.Done()
			sem <- struct{}{}
			p.run()
			<-sem
		}(p)
	}
	wg.Wait()
}

// ---- worker statistics (mirror of the harness's JSON) ------------------------------------------------------

type failure struct {
	Oracle string `json:"oracle"`
	Task   int    `json:"task"`
	Op     int    `json:"op"`
	Key    string `json:"key"`
	Got    uint64 `json:"got"`
	Want   uint64 `json:"want"`
	Detail string `json:"detail"`
}

type foundFailure struct {
	RunIndex int64           `json:"run_index"`
	Fail     failure         `json:"fail"`
	Replay   json.RawMessage `json:"replay"`
	Original json.RawMessage `json:"original"`
}

type stats struct {
	Mode          string         `json:"mode"`
	Worker        int            `json:"worker"`
	Gomaxprocs    int            `json:"gomaxprocs"`
	Runs          int64          `json:"runs"`
	Ops           int64          `json:"ops"`
	Steps         int64          `json:"steps"`
	Switches      int64          `json:"switches"`
	Overlapped    int64          `json:"overlapped_runs"`
	Faults        map[string]int `json:"faults_fired"`
	FaultsCfg     map[string]int `json:"faults_configured"`
	Strategies    map[string]int `json:"strategies"`
	Contention    map[string]int `json:"contention"`
	Granularity   map[string]int `json:"granularity"`
	Entries       map[string]int `json:"ops_by_entry"`
	Variants      map[string]int `json:"ops_by_variant"`
	SitesCovered  int            `json:"sites_covered"`
	CoveredBits   string         `json:"covered_bits"`
	SitesTotal    int            `json:"sites_total"`
	SwitchEdges   int            `json:"switch_edges"`
	Aborted       map[string]int `json:"aborted_runs"`
	Foreign       int64          `json:"foreign_goroutine_yields"`
	Infeasible    int            `json:"infeasible_segments"`
	RefChecked    int            `json:"ref_entries_rechecked"`
	RefTableHash  string         `json:"ref_table_hash"`
	PoolInputs    int            `json:"pool_inputs"`
	PoolOps       int            `json:"pool_ops"`
	WallS         float64        `json:"wall_s"`
	Failures      []foundFailure `json:"failures"`
	FailuresTotal int            `json:"failures_total"`
	Samples       []any          `json:"samples"`
	MinimiseExecs int            `json:"minimise_execs"`
	Harness       []string       `json:"harness_trouble"`
	Covered       []int          `json:"covered_sites,omitempty"`
}

func addMap(dst, src map[string]int) {
	for k, v := range src {
		dst[k] += v
	}
}

type total struct {
	stats
	procs   int
	covered []byte // union of the yield-site bitmaps of all processes
}

func newTotal() *total {
	t := &total{}
	t.Faults, t.FaultsCfg, t.Strategies, t.Contention = map[string]int{}, map[string]int{}, map[string]int{}, map[string]int{}
	t.Granularity, t.Entries, t.Variants, t.Aborted = map[string]int{}, map[string]int{}, map[string]int{}, map[string]int{}
	return t
}

func (t *total) add(s *stats) {
	t.procs++
	t.Runs += s.Runs
	t.Ops += s.Ops
	t.Steps += s.Steps
	t.Switches += s.Switches
	t.Overlapped += s.Overlapped
	addMap(t.Faults, s.Faults)
	addMap(t.FaultsCfg, s.FaultsCfg)
	addMap(t.Strategies, s.Strategies)
	addMap(t.Contention, s.Contention)
	addMap(t.Granularity, s.Granularity)
	addMap(t.Entries, s.Entries)
	addMap(t.Variants, s.Variants)
	addMap(t.Aborted, s.Aborted)
	t.Foreign += s.Foreign
	t.Infeasible += s.Infeasible
	t.RefChecked += s.RefChecked
	t.MinimiseExecs += s.MinimiseExecs
	t.FailuresTotal += s.FailuresTotal
	if s.SitesCovered > t.SitesCovered {
		t.SitesCovered = s.SitesCovered
	}
	if b, err := hex.DecodeString(s.CoveredBits); err == nil {
		if len(t.covered) < len(b) {
			t.covered = append(t.covered, make([]byte, len(b)-len(t.covered))...)
		}
		for i, x := range b {
			t.covered[i] |= x
		}
	}
	if s.SwitchEdges > t.SwitchEdges {
		t.SwitchEdges = s.SwitchEdges
	}
	t.SitesTotal = s.SitesTotal
	t.PoolInputs, t.PoolOps = s.PoolInputs, s.PoolOps
	t.Harness = append(t.Harness, s.Harness...)
}

func loadStats(path string) (*stats, error) {
	b, err := os.ReadFile(path)
	if err != nil {
		return nil, err
	}
	var s stats
	if err := json.Unmarshal(b, &s); err != nil {
		return nil, err
	}
	return &s, nil
}

// ---- known findings ------------------------------------------------------------------------------------------

type knownEntry struct {
	Property string `json:"property"`
	Status   string `json:"status"` // known | fixed
	Identity string `json:"identity"`
	Commit   string `json:"commit,omitempty"`
	What     string `json:"what"`
}

func loadKnown() []knownEntry {
	b, err := os.ReadFile(filepath.Join(verifDir, "known_findings.json"))
	if err != nil {
		return nil
	}
	var f struct {
		Findings []knownEntry `json:"findings"`
	}
	if err := json.Unmarshal(b, &f); err != nil {
		trouble("known_findings.json: %v", err)
	}
	return f.Findings
}

// ---- the check ---------------------------------------------------------------------------------------------------

type violation struct {
	confirmed bool
	identity  string
	replay    string
	summary   string
	known     *knownEntry
}

func doCheck(cfg tierCfg) int {
	start := time.Now()
	seed := seedFromEnv()
	fmt.Printf("check C18 tier=%s VERIF_SEED=%d\n", cfg.name, seed)
	var capFired atomic.Bool
	hard := time.AfterFunc(cfg.hardCap, func() {
		capFired.Store(true)
		fmt.Println("HARNESS-TROUBLE: hard wall-clock cap reached")
		cleanup()
		os.Exit(2)
	})
	defer hard.Stop()
	defer cleanup()
	b := prepare(true, true)
	fmt.Printf("instrumented copy: %v sites in %v files; build %.1fs\n", b.instr["sites"], b.instr["files"], b.buildS)
	if gs, _ := b.instr["go_statements"].([]any); len(gs) > 0 {
		fmt.Printf("note: the tree starts goroutines inside the library at %v; they are not scheduled by the simulator (seen by burst mode only)\n", gs)
	}
	if left, _ := b.instr["sync_left_real"].([]any); len(left) > 0 {
		fmt.Printf("note: files using sync primitives the simulator does not model keep the real package: %v\n", left)
	}
	// -- phase 0: coverage-guided growth of the input pool (16 shards over the corpus) ------------------
	ncpu0 := runtime.NumCPU()
	if ncpu0 > 16 {
		ncpu0 = 16
	}
	var growProcs []*proc
	for i := 0; i < 16; i++ {
		out := filepath.Join(scratch, fmt.Sprintf("grow-%d.json", i))
		growProcs = append(growProcs, &proc{name: fmt.Sprintf("grow-%d", i), bin: b.serialBin, outFile: out, timeout: 10 * time.Minute,
			args: []string{"-mode", "grow", "-w", fmt.Sprint(i), "-of", "16", "-m", fmt.Sprint(cfg.growReplace), "-root", b.rootSerial, "-seed", fmt.Sprint(seed), "-corrupt", "0", "-churn", "0", "-large", "0", "-out", out},
			env:  []string{"GOMAXPROCS=1"}})
	}
	runAll(growProcs, ncpu0)
	var grown []json.RawMessage
	for _, p := range growProcs {
		if p.killed || p.exit != 0 {
			trouble("pool growth failed: %s: exit %d: %s", p.name, p.exit, tail(p.stderr.String(), 800))
		}
		raw, err := os.ReadFile(p.outFile)
		if err != nil {
			trouble("%v", err)
		}
		var part []json.RawMessage
		if err := json.Unmarshal(raw, &part); err != nil && string(raw) != "null" {
			trouble("%s: %v", p.outFile, err)
		}
		grown = append(grown, part...)
	}
	allFile := filepath.Join(scratch, "grown-all.json")
	allRaw, _ := json.Marshal(grown)
	if err := os.WriteFile(allFile, allRaw, 0o644); err != nil {
		trouble("%v", err)
	}
	extraFile := filepath.Join(scratch, "extra.json")
	gm := &proc{name: "growmerge", bin: b.serialBin, timeout: 10 * time.Minute,
		args: []string{"-mode", "growmerge", "-extra", allFile, "-root", b.rootSerial, "-seed", fmt.Sprint(seed), "-corrupt", "0", "-churn", "0", "-large", "0", "-out", extraFile},
		env:  []string{"GOMAXPROCS=1"}}
	gm.run()
	if gm.killed || gm.exit != 0 {
		trouble("pool growth (merge) failed: exit %d: %s", gm.exit, tail(gm.stderr.String(), 800))
	}
	shardFinds := len(grown)
	grown = nil
	if raw, err := os.ReadFile(extraFile); err == nil {
		json.Unmarshal(raw, &grown)
	}
	if len(grown) > cfg.growMax {
		grown = grown[:cfg.growMax]
	}
	extraRaw, _ := json.Marshal(grown)
	if err := os.WriteFile(extraFile, extraRaw, 0o644); err != nil {
		trouble("%v", err)
	}
	fmt.Printf("[t=%.0fs] pool growth: %d inputs added (of %d shard finds) because they execute yield sites the corpus does not reach (single-token truncations / deletions of corpus files)\n", time.Since(start).Seconds(), len(grown), shardFinds)
	// a tree that can block for real (channels, primitives the shim does not model, goroutines of
	// its own) needs the watchdog to grant the baton past blocked tasks (DESIGN §2.4)
	extBlock := false
	for _, k := range []string{"chan_ops", "sync_left_real", "go_statements"} {
		if l, _ := b.instr[k].([]any); len(l) > 0 {
			extBlock = true
		}
	}
	common := []string{"-root", b.rootSerial, "-seed", fmt.Sprint(seed), "-corrupt", fmt.Sprint(cfg.corrupt), "-churn", fmt.Sprint(cfg.churn), "-large", fmt.Sprint(cfg.large), "-extra", extraFile}
	if extBlock {
		common = append(common, "-extblock")
		fmt.Println("note: the tree can block on primitives the simulator does not own; the watchdog grants the baton past blocked tasks (such runs are degraded: not exactly replayable)")
	}
	ncpu := runtime.NumCPU()
	if ncpu > 16 {
		ncpu = 16
	}
	var harnessTrouble []string
	degradedWhy := ""
	var found []foundFailure
	foundMode := map[int]string{}
	collect := func(s *stats) {
		for _, f := range s.Failures {
			foundMode[len(found)] = s.Mode
			found = append(found, f)
		}
	}
	checkProc := func(p *proc) bool {
		if p.killed {
			harnessTrouble = append(harnessTrouble, fmt.Sprintf("%s: killed after %v", p.name, p.timeout))
			return false
		}
		if p.exit != 0 {
			harnessTrouble = append(harnessTrouble, fmt.Sprintf("%s: exit %d: %s", p.name, p.exit, tail(p.stderr.String(), 1500)))
			return false
		}
		return true
	}

	// -- phase 1: reference table, fresh processes, forward and reverse slicings --------------------------------
	var refProcs []*proc
	var parts []string
	for i := 0; i < 16; i++ {
		out := filepath.Join(scratch, fmt.Sprintf("ref-f%d.bin", i))
		parts = append(parts, out)
		refProcs = append(refProcs, &proc{name: fmt.Sprintf("ref-fwd-%d", i), bin: b.serialBin, timeout: 5 * time.Minute,
			args: append([]string{"-mode", "ref", "-w", fmt.Sprint(i), "-of", "16", "-out", out}, common...), env: []string{"GOMAXPROCS=1"}})
	}
	for i := 0; i < 5; i++ {
		out := filepath.Join(scratch, fmt.Sprintf("ref-r%d.bin", i))
		parts = append(parts, out)
		refProcs = append(refProcs, &proc{name: fmt.Sprintf("ref-rev-%d", i), bin: b.serialBin, timeout: 5 * time.Minute,
			args: append([]string{"-mode", "ref", "-w", fmt.Sprint(i), "-of", "5", "-reverse", "-out", out}, common...), env: []string{"GOMAXPROCS=4"}})
	}
	runAll(refProcs, ncpu)
	for _, p := range refProcs {
		if !checkProc(p) {
			trouble("reference pass failed: %v", harnessTrouble)
		}
	}
	mergeOut := filepath.Join(scratch, "refmerge.json")
	mp := &proc{name: "refmerge", bin: b.serialBin, timeout: 5 * time.Minute,
		args: append([]string{"-mode", "refmerge", "-refs", strings.Join(parts, ","), "-out", mergeOut}, common...)}
	mp.run()
	if !checkProc(mp) {
		trouble("reference merge failed: %v", harnessTrouble)
	}
	mst, err := loadStats(mergeOut)
	if err != nil {
		trouble("%v", err)
	}
	collect(mst)
	table := mergeOut + ".table"
	fmt.Printf("[t=%.0fs] ", time.Since(start).Seconds())
	fmt.Printf("reference table: %d operations over %d inputs, hash %s, computed twice in 21 fresh processes (forward and reverse order)\n",
		mst.PoolOps, mst.PoolInputs, mst.RefTableHash)

	tot := newTotal()
	tot.add(mst)
	var samples []any
	var sideFiles []string

	// -- phase 2: seeded serial runs + determinism self-test -----------------------------------------------------
	var ps []*proc
	gmp := func(i int) string {
		switch i % 8 {
		case 3:
			return "GOMAXPROCS=4"
		case 7:
			return "GOMAXPROCS=2"
		}
		return "GOMAXPROCS=1"
	}
	selfFrom := int64(1) << 40 // a run-index range of its own
	nw := cfg.serialProcs - 3
	for i := 0; i < nw; i++ {
		out := filepath.Join(scratch, fmt.Sprintf("work-%d.json", i))
		side := filepath.Join(scratch, fmt.Sprintf("work-%d.side", i))
		sideFiles = append(sideFiles, side)
		ps = append(ps, &proc{name: fmt.Sprintf("serial-%d", i), bin: b.serialBin, outFile: out, timeout: time.Duration(cfg.serialSeconds*3+120) * time.Second,
			args: append([]string{"-mode", "work", "-w", fmt.Sprint(i), "-of", fmt.Sprint(nw), "-seconds", fmt.Sprint(cfg.serialSeconds), "-refs", table, "-out", out, "-side", side}, common...),
			env:  []string{gmp(i), "GOMEMLIMIT=3GiB"}})
	}
	var selfSides []string
	for j, g := range []string{"1", "4", "16"} {
		out := filepath.Join(scratch, fmt.Sprintf("self-%d.json", j))
		side := filepath.Join(scratch, fmt.Sprintf("self-%d.side", j))
		selfSides = append(selfSides, side)
		ps = append(ps, &proc{name: "selftest-gomaxprocs" + g, bin: b.serialBin, outFile: out, timeout: time.Duration(cfg.serialSeconds*3+300) * time.Second,
			args: append([]string{"-mode", "work", "-w", "0", "-of", "1", "-from", fmt.Sprint(selfFrom), "-runs", fmt.Sprint(cfg.selfRuns), "-verify", "0", "-refs", table, "-out", out, "-side", side}, common...),
			env:  []string{"GOMAXPROCS=" + g, "GOMEMLIMIT=3GiB"}})
	}
	runAll(ps, ncpu+3)
	if os.Getenv("VERIF_VERBOSE") != "" {
		for _, p := range ps {
			fmt.Printf("  %s %.1fs\n", p.name, p.wall.Seconds())
		}
	}
	serialRuns := int64(0)
	for _, p := range ps {
		if !checkProc(p) {
			continue
		}
		s, err := loadStats(p.outFile)
		if err != nil {
			harnessTrouble = append(harnessTrouble, err.Error())
			continue
		}
		tot.add(s)
		collect(s)
		serialRuns += s.Runs
		if len(samples) < 3 {
			samples = append(samples, s.Samples...)
		}
	}
	fmt.Printf("[t=%.0fs] ", time.Since(start).Seconds())
	fmt.Printf("serial mode: %d seeded runs, %d operations, %d yields, %d context switches, %d runs with overlapping calls\n",
		tot.Runs, tot.Ops, tot.Steps, tot.Switches, tot.Overlapped)

	// determinism self-test: the same run index executed by different processes
	selfCompared, selfLogDiff, selfOutDiff := compareSides(selfSides)
	if selfOutDiff != nil {
		// identical seeded runs produced different results in different processes: O2
		exp := filepath.Join(scratch, "export.json")
		ep := &proc{name: "export", bin: b.serialBin, timeout: 2 * time.Minute,
			args: append([]string{"-mode", "export", "-from", fmt.Sprint(*selfOutDiff), "-refs", table, "-out", exp}, common...)}
		ep.run()
		if raw, err := os.ReadFile(exp); err == nil && ep.exit == 0 {
			found = append(found, foundFailure{RunIndex: *selfOutDiff, Fail: failure{Oracle: "O2", Key: fmt.Sprintf("seeded run %d", *selfOutDiff),
				Detail: "the same seeded run produced different call results in two processes (GOMAXPROCS 1/4/16)"}, Replay: raw})
			foundMode[len(found)-1] = "serial"
		} else {
			harnessTrouble = append(harnessTrouble, "self-test: results differ between processes and the run could not be exported")
		}
	} else if selfLogDiff != nil {
		// equal results, different paths through the code.  If the tree uses a source of
		// nondeterminism the simulator does not own (clock, random numbers, goroutines of its
		// own, real sync primitives) that is the explanation, the runs are *degraded* (their
		// schedules are not a pure function of the seed) and the result oracles still apply;
		// otherwise the simulator itself lost control of something
		if why := uncontrolledSources(b); why != "" {
			degradedWhy = why
			fmt.Printf("note: event logs of identical seeded runs differ between processes while their results are equal; the tree uses %s, which the simulator does not control: runs are degraded (not exactly replayable), result oracles unaffected\n", why)
		} else {
			harnessTrouble = append(harnessTrouble, fmt.Sprintf("determinism self-test: run %d has equal results but different event logs in different processes (the simulator lost control of a source of nondeterminism)", *selfLogDiff))
		}
	}
	fmt.Printf("determinism self-test: %d run indices executed by 3 processes (GOMAXPROCS 1, 4, 16): event-log hashes and results identical: %v\n",
		selfCompared, selfLogDiff == nil && selfOutDiff == nil)

	// -- phase 3: systematic sweeps ------------------------------------------------------------------------------
	ps = nil
	for i := 0; i < ncpu; i++ {
		out := filepath.Join(scratch, fmt.Sprintf("pairs-%d.json", i))
		ps = append(ps, &proc{name: fmt.Sprintf("pairs-%d", i), bin: b.serialBin, outFile: out, timeout: 20 * time.Minute,
			args: append([]string{"-mode", "pairs", "-w", fmt.Sprint(i), "-of", fmt.Sprint(ncpu), "-m", fmt.Sprint(cfg.pairsM), "-refs", table, "-out", out}, common...),
			env:  []string{"GOMAXPROCS=1", "GOMEMLIMIT=3GiB"}})
		out2 := filepath.Join(scratch, fmt.Sprintf("preempt-%d.json", i))
		side2 := filepath.Join(scratch, fmt.Sprintf("preempt-%d.side", i))
		sideFiles = append(sideFiles, side2)
		ps = append(ps, &proc{name: fmt.Sprintf("preempt-%d", i), bin: b.serialBin, outFile: out2, timeout: 75 * time.Minute,
			args: append([]string{"-mode", "preempt", "-w", fmt.Sprint(i), "-of", fmt.Sprint(ncpu), "-m", fmt.Sprint(cfg.preemptPairs), "-cap", fmt.Sprint(cfg.preemptCap), "-refs", table, "-out", out2, "-side", side2}, common...),
			env:  []string{"GOMAXPROCS=1", "GOMEMLIMIT=3GiB"}})
	}
	nFirst := cfg.firstPer * 24
	for k := 0; k < nFirst; k++ {
		out := filepath.Join(scratch, fmt.Sprintf("first-%d.json", k))
		ps = append(ps, &proc{name: fmt.Sprintf("first-%d", k), bin: b.serialBin, outFile: out, timeout: 5 * time.Minute,
			args: append([]string{"-mode", "first", "-k", fmt.Sprint(k), "-m", fmt.Sprint(cfg.firstPer), "-refs", table, "-out", out}, common...),
			env:  []string{"GOMAXPROCS=1", "GOMEMLIMIT=3GiB"}})
	}
	runAll(ps, ncpu)
	if os.Getenv("VERIF_VERBOSE") != "" {
		fmt.Println("slowest sweep process:", slowest(ps))
	}
	sweep := newTotal()
	for _, p := range ps {
		if !checkProc(p) {
			continue
		}
		s, err := loadStats(p.outFile)
		if err != nil {
			harnessTrouble = append(harnessTrouble, err.Error())
			continue
		}
		tot.add(s)
		sweep.add(s)
		collect(s)
	}
	fmt.Printf("[t=%.0fs] ", time.Since(start).Seconds())
	fmt.Printf("sweeps: %d ordered-pair chains (%d sampled operations: every ordered pair), %d single-preemption schedules, %d first-call chains (one fresh process each)\n",
		sweep.Strategies["ordered-pair-sweep"], cfg.pairsM, sweep.Strategies["single-preemption-sweep"], sweep.Strategies["first-call-sweep"])

	// -- phase 4: parallel bursts under the race detector ----------------------------------------------------------
	burst := newTotal()
	var raceReports []raceReport
	bgmp := []string{"4", "16", "2", "8", "16", "4"}
	type bw struct {
		from int64
		p    *proc
	}
	burstDeadline := time.Now().Add(time.Duration(cfg.burstSeconds * float64(time.Second)))
	var bmu sync.Mutex
	var bwg sync.WaitGroup
	for i := 0; i < cfg.burstProcs; i++ {
		bwg.Add(1)
		go func(i int) {
			defer bwg.Done()
			from := int64(0)
			for restarts := 0; restarts < 6; restarts++ {
				left := time.Until(burstDeadline).Seconds()
				minLeft := int64(cfg.burstMin) - (from-int64(i))/int64(cfg.burstProcs)
				if minLeft < 0 {
					minLeft = 0
				}
				if left < 1 {
					if minLeft == 0 {
						return
					}
					left = 1
				}
				out := filepath.Join(scratch, fmt.Sprintf("burst-%d-%d.json", i, restarts))
				p := &proc{name: fmt.Sprintf("burst-%d", i), bin: b.raceBin, outFile: out, timeout: time.Duration(left*8+120) * time.Second,
					args: append([]string{"-mode", "burst", "-w", fmt.Sprint(i), "-of", fmt.Sprint(cfg.burstProcs), "-from", fmt.Sprint(from), "-seconds", fmt.Sprint(left), "-minruns", fmt.Sprint(minLeft), "-refs", table, "-out", out},
						"-root", b.rootRace, "-seed", fmt.Sprint(seed), "-corrupt", fmt.Sprint(cfg.corrupt), "-churn", fmt.Sprint(cfg.churn), "-large", fmt.Sprint(cfg.large), "-extra", extraFile),
					env: []string{"GOMAXPROCS=" + bgmp[i%len(bgmp)], "GORACE=halt_on_error=1 exitcode=66 history_size=4", "GOMEMLIMIT=6GiB"}}
				p.run()
				bmu.Lock()
				if p.exit == 0 && !p.killed {
					if s, err := loadStats(out); err == nil {
						tot.add(s)
						burst.add(s)
						collect(s)
						if len(s.Samples) > 0 && len(samples) < 4 {
							samples = append(samples, s.Samples[0])
						}
					} else {
						harnessTrouble = append(harnessTrouble, err.Error())
					}
					bmu.Unlock()
					return
				}
				// crashed: a race report (exit 66), a fatal runtime error (concurrent map access), or trouble
				last := lastBurst(p.stderr.String())
				rr := classifyCrash(p, last, i, cfg.burstProcs)
				raceReports = append(raceReports, rr)
				bmu.Unlock()
				if rr.kind == "trouble" || last < 0 || p.exit == 67 {
					return // (one hang is enough: every further burst of this worker would wait 20 s again)
				}
				from = last - int64(i) + int64(cfg.burstProcs) // continue after the burst that crashed
			}
		}(i)
	}
	bwg.Wait()
	fmt.Printf("[t=%.0fs] ", time.Since(start).Seconds())
	fmt.Printf("burst mode (-race): %d bursts, %d operations on real threads, GOMAXPROCS 2/4/8/16; race reports: %d\n", burst.Runs, burst.Ops, len(raceReports))

	// -- violations ---------------------------------------------------------------------------------------------------
	os.MkdirAll(filepath.Join(verifDir, "replays"), 0o755)
	known := loadKnown()
	var viols []violation
	seen := map[string]bool{}
	addViolation := func(identity, summary string, replayJSON []byte, tag string) *violation {
		if seen[identity] {
			return nil
		}
		seen[identity] = true
		path := filepath.Join(verifDir, "replays", fmt.Sprintf("C18-%d-%s.json", seed, tag))
		if err := os.WriteFile(path, replayJSON, 0o644); err != nil {
			trouble("writing %s: %v", path, err)
		}
		v := violation{identity: strings.TrimSuffix(strings.TrimSuffix(identity, "|slice0"), "|slice1"), replay: path, summary: summary}
		for i := range known {
			if known[i].Property == "C18" && known[i].Status == "known" && known[i].Identity == identity {
				v.known = &known[i]
			}
		}
		viols = append(viols, v)
		return &viols[len(viols)-1]
	}
	confirmed, unconfirmed := 0, 0
	// fresh-process confirmations may take minutes each (a replay recomputes every expectation,
	// one call per process): they get 55% of the hard cap; what is found after that is
	// reported as observed, with its replay file, without re-execution
	confirmUntil := start.Add(cfg.hardCap * 55 / 100)
	verbose := os.Getenv("VERIF_VERBOSE") != ""
	for i, f := range found {
		if len(viols) >= 6 {
			break
		}
		if confirmed+unconfirmed > 0 && time.Now().After(confirmUntil) {
			break
		}
		var rf map[string]any
		json.Unmarshal(f.Replay, &rf)
		identity, _ := rf["identity"].(string)
		if identity == "" {
			identity = f.Fail.Oracle + "|" + f.Fail.Key
		}
		if foundMode[i] == "refmerge" {
			identity += fmt.Sprintf("|slice%d", i%2) // both slices of a disagreement are tried
		}
		if seen[identity] {
			continue
		}
		tag := fmt.Sprintf("%s-%d-%d", foundMode[i], f.RunIndex, i)
		summary := fmt.Sprintf("oracle %s: %s [%s]", f.Fail.Oracle, f.Fail.Detail, f.Fail.Key)
		v := addViolation(identity, summary, indentJSON(f.Replay), tag)
		if v == nil {
			continue
		}
		// confirm in fresh processes: expectations recomputed one call per process
		bin := b.serialBin
		if foundMode[i] == "burst" {
			bin = b.raceBin
		}
		rp := &proc{name: "replay", bin: bin, timeout: 10 * time.Minute, args: []string{"-mode", "replay", "-file", v.replay},
			env: []string{"GORACE=halt_on_error=1 exitcode=66"}}
		if bytes.Contains(f.Replay, []byte(`"runs": []`)) || bytes.Contains(f.Replay, []byte(`"runs":[]`)) {
			rp.args = append(rp.args, "-root", b.rootSerial) // prefix-only replay file
		}
		rp.run()
		if verbose {
			fmt.Printf("  confirm %s: replay exit %d in %.1fs (%d bytes)\n", tag, rp.exit, rp.wall.Seconds(), len(f.Replay))
		}
		if rp.exit != 1 && rp.exit != 66 && len(f.Original) > 2 && string(f.Original) != "null" && foundMode[i] != "burst" {
			// the in-process minimisation may have relied on state left in the worker process:
			// go back to the case as found and minimise it with fresh-process executions only
			orig := filepath.Join(scratch, fmt.Sprintf("orig-%d.json", i))
			os.WriteFile(orig, f.Original, 0o644)
			op := &proc{name: "replay-original", bin: bin, timeout: 10 * time.Minute, args: []string{"-mode", "replay", "-file", orig}}
			op.run()
			if verbose {
				fmt.Printf("  confirm %s: replay-original exit %d in %.1fs (%d bytes)\n", tag, op.exit, op.wall.Seconds(), len(f.Original))
			}
			if op.exit == 1 {
				minOut := filepath.Join(scratch, fmt.Sprintf("min-%d.json", i))
				mp := &proc{name: "minimise", bin: bin, timeout: 5 * time.Minute, args: []string{"-mode", "minimise", "-file", orig, "-out", minOut, "-seconds", "20"}}
				mp.run()
				if verbose {
					fmt.Printf("  confirm %s: minimise exit %d in %.1fs\n", tag, mp.exit, mp.wall.Seconds())
				}
				src := orig
				if mp.exit == 0 {
					src = minOut
				}
				if raw, err := os.ReadFile(src); err == nil {
					os.WriteFile(v.replay, indentJSON(raw), 0o644)
				}
				rp = &proc{name: "replay", bin: bin, timeout: 10 * time.Minute, args: []string{"-mode", "replay", "-file", v.replay}}
				rp.run()
				if rp.exit != 1 { // the fresh-process minimiser only keeps failing candidates; belt and braces
					os.WriteFile(v.replay, indentJSON(f.Original), 0o644)
					rp.exit = 1
				}
			}
		}
		if rp.exit != 1 && rp.exit != 66 && foundMode[i] == "serial" && bytes.Contains(f.Replay, []byte(`"seeded_prefix"`)) {
			// neither the minimised nor the original single run fails in a fresh process: the
			// failure needs the history of its worker; replay that (the file carries the prefix)
			os.WriteFile(v.replay, indentJSON(f.Replay), 0o644)
			pp := &proc{name: "replay-prefix", bin: bin, timeout: 15 * time.Minute, args: []string{"-mode", "replay", "-file", v.replay, "-root", b.rootSerial}}
			pp.run()
			if verbose {
				fmt.Printf("  confirm %s: replay-prefix exit %d in %.1fs\n", tag, pp.exit, pp.wall.Seconds())
			}
			if pp.exit == 1 {
				rp.exit = 1
			}
		}
		switch rp.exit {
		case 1, 66:
			confirmed++
			v.confirmed = true
			v.summary += " (replay file reproduces in a fresh process)"
		default:
			unconfirmed++
			v.summary += " (observed during the check; the replay file did NOT reproduce it in a fresh process: the violation depends on state left by earlier runs of the same process or is itself nondeterministic)"
		}
	}
	for i, rr := range raceReports {
		if rr.kind == "trouble" {
			harnessTrouble = append(harnessTrouble, rr.text)
			continue
		}
		if rr.harnessOnly {
			harnessTrouble = append(harnessTrouble, "race report with harness frames only:\n"+rr.text)
			continue
		}
		raw := []byte("{}")
		if rr.burst >= 0 {
			exp := filepath.Join(scratch, fmt.Sprintf("export-b%d.json", i))
			ep := &proc{name: "export", bin: b.serialBin, timeout: 2 * time.Minute,
				args: append([]string{"-mode", "export", "-burst", "-from", fmt.Sprint(rr.burst), "-refs", table, "-out", exp}, common...)}
			ep.run()
			if b2, err := os.ReadFile(exp); err == nil && ep.exit == 0 {
				var m map[string]any
				json.Unmarshal(b2, &m)
				m["report"] = rr.text
				m["identity"] = rr.identity
				if g, err := strconv.Atoi(rr.gomaxprocs); err == nil {
					m["gomaxprocs"] = g
				}
				m["expect"] = failure{Oracle: strings.SplitN(rr.identity, "|", 2)[0], Key: rr.identity, Detail: rr.kind}
				m["seeded_prefix"] = map[string]any{"seed": seed, "first": rr.worker, "stride": cfg.burstProcs, "last": rr.burst, "corrupt": cfg.corrupt, "churn": cfg.churn, "large": cfg.large, "extra_inputs": json.RawMessage(extraRaw)}
				raw, _ = json.MarshalIndent(m, "", " ")
			}
		}
		addViolation(rr.identity, fmt.Sprintf("oracle %s (%s): %s", strings.SplitN(rr.identity, "|", 2)[0], rr.kind, firstLines(rr.text, 3)), raw, fmt.Sprintf("burst-%d-%d", rr.burst, i))
	}

	// -- evidence -------------------------------------------------------------------------------------------------------
	if capFired.Load() {
		select {} // the cap handler is killing the children and removing the scratch copy: no verdict from half a run
	}
	distinct, overlappedDistinct := countDistinct(append(sideFiles, selfSides...))
	wall := time.Since(start).Seconds()
	unknownViol := 0
	for _, v := range viols {
		if v.known == nil {
			unknownViol++
		}
	}
	ev := map[string]any{
		"property_id": "C18",
		"tier":        cfg.name,
		"seed":        int64(seed),
		"level":       "exploration",
		"wall_s":      wall,
		"violations":  unknownViol,
		"assumptions": []string{
			"the reference outcome of a call is the outcome of the same call executed solo in a fresh process of the same tree (C18 states sameness, not rightness)",
			"instruction interleavings inside one statement are explored only by the -race bursts, whose thread timing the seed does not control",
			"goroutines started inside the library (none today) would run unscheduled; sharing one Parser/Lexer/File value between tasks is outside the property",
			"amd64/linux, the repository's own toolchain",
		},
		"coverage": map[string]any{
			"evaluations":         tot.Runs,
			"distinct_nontrivial": overlappedDistinct,
			"rule": "one evaluation = one simulated execution of a plan (2-6 caller tasks x 1-8 public-API calls) under one schedule: seeded serial runs, ordered-pair chains, single-preemption schedules and -race bursts. " +
				"distinct_nontrivial counts serial runs (seeded runs and single-preemption schedules) whose schedule signature (hash of the (task, operation, yield site) triples at which the baton changed hands) is distinct AND in which two calls of different tasks actually overlapped (a context switch while both were in flight); counted from the per-run records; bursts and ordered-pair chains not included",
			"samples":                                 samples,
			"serial_seeded_runs":                      serialRuns,
			"distinct_schedule_signatures":            distinct,
			"runs_with_overlapping_calls":             tot.Overlapped,
			"operations":                              tot.Ops,
			"simulated_steps_yields":                  tot.Steps,
			"context_switches":                        tot.Switches,
			"runs_per_hour":                           float64(tot.Runs) / wall * 3600,
			"seeds_per_hour":                          float64(serialRuns) / wall * 3600,
			"simulated_time":                          fmt.Sprintf("%d yields (the library has no clock; simulated time is the global yield counter)", tot.Steps),
			"faults_fired":                            tot.Faults,
			"faults_configured_runs_or_ops":           tot.FaultsCfg,
			"fault_kinds_with_zero_seams":             []string{"message loss/duplication/reordering", "partitions", "disk errors, torn/lost writes, full disk", "clock skew/jumps", "failing system calls or allocations"},
			"strategies":                              tot.Strategies,
			"contention_modes":                        tot.Contention,
			"granularity":                             tot.Granularity,
			"ops_by_entry":                            tot.Entries,
			"ops_by_variant":                          tot.Variants,
			"yield_sites_total":                       tot.SitesTotal,
			"yield_sites_covered_max_per_process":     tot.SitesCovered,
			"switch_edges_max_per_process":            tot.SwitchEdges,
			"pool_inputs":                             tot.PoolInputs,
			"pool_inputs_grown_by_coverage":           len(grown),
			"pool_operations":                         tot.PoolOps,
			"reference_table_hash":                    mst.RefTableHash,
			"reference_entries_recomputed_by_workers": tot.RefChecked,
			"determinism_selftest":                    map[string]any{"run_indices": selfCompared, "processes": 3, "gomaxprocs": []int{1, 4, 16}, "identical": selfLogDiff == nil && selfOutDiff == nil},
			"sweeps": map[string]any{"ordered_pair_chains": sweep.Strategies["ordered-pair-sweep"], "ordered_pairs": cfg.pairsM * cfg.pairsM, "single_preemption_schedules": sweep.Strategies["single-preemption-sweep"],
				"first_call_chains_fresh_process_each": sweep.Strategies["first-call-sweep"]},
			"bursts":                                    map[string]any{"bursts": burst.Runs, "operations": burst.Ops, "gomaxprocs": []int{2, 4, 8, 16}, "race_reports": len(raceReports)},
			"aborted_runs":                              tot.Aborted,
			"degraded_determinism":                      degradedWhy,
			"degraded_runs":                             tot.Faults["degraded-run"],
			"external_block_grants":                     tot.Faults["external-block-grant"],
			"foreign_goroutine_yields":                  tot.Foreign,
			"external_block_events":                     tot.Aborted["external block (no yield for 10 s of real time)"],
			"infeasible_segments":                       tot.Infeasible,
			"minimiser_executions":                      tot.MinimiseExecs,
			"failures_observed":                         tot.FailuresTotal,
			"violations_confirmed_by_fresh_replay":      confirmed,
			"violations_not_reproduced_by_fresh_replay": unconfirmed,
			"components": map[string]any{
				"real":      []string{"memefish (parser, lexer, split, errors)", "memefish/ast", "memefish/token", "memefish/char" + " - as found in /repo's working tree, instrumented copy"},
				"simulated": []string{"caller goroutines (tasks)", "goroutine scheduling decisions", "garbage-collection points", "callers' treatment of returned values (retain, share read-only, overwrite)"},
				"stub":      syncStubNote(b),
			},
			"instrumentation": b.instr,
			"build_s":         b.buildS,
		},
	}
	// reach: which yield sites no process executed (named, so that a reader sees the blind spots)
	coveredUnion, uncovered := 0, []string{}
	var siteList []struct {
		File string `json:"file"`
		Line int    `json:"line"`
		Func string `json:"func"`
	}
	if sb, err := os.ReadFile(filepath.Join(b.rootSerial, "verifsimrt", "sites.json")); err == nil {
		json.Unmarshal(sb, &siteList)
	}
	uncoveredByFunc := map[string]int{}
	var uncoveredLines []string
	markers := 0
	for i := range siteList {
		if i/8 < len(tot.covered) && tot.covered[i/8]&(1<<(i%8)) != 0 {
			coveredUnion++
		} else {
			uncoveredByFunc[siteList[i].File+":"+siteList[i].Func]++
			if !markerRe.MatchString(siteList[i].Func) {
				uncoveredLines = append(uncoveredLines, fmt.Sprintf("%s:%d", siteList[i].File, siteList[i].Line))
			}
		}
	}
	for f, n := range uncoveredByFunc {
		if markerRe.MatchString(f) {
			markers += n // empty marker methods (isExpr, isStatement, ...) that nothing calls
			continue
		}
		uncovered = append(uncovered, fmt.Sprintf("%s (%d)", f, n))
	}
	sort.Strings(uncovered)
	cov := ev["coverage"].(map[string]any)
	cov["yield_sites_covered_union"] = coveredUnion
	cov["yield_sites_never_executed_by_function"] = uncovered
	cov["yield_sites_never_executed_lines"] = uncoveredLines
	cov["yield_sites_in_uncalled_marker_methods"] = markers
	os.MkdirAll(filepath.Join(verifDir, "evidence"), 0o755)
	eb, _ := json.MarshalIndent(ev, "", " ")
	if err := os.WriteFile(filepath.Join(verifDir, "evidence", "C18.json"), append(eb, '\n'), 0o644); err != nil {
		trouble("writing evidence: %v", err)
	}

	// -- verdict ---------------------------------------------------------------------------------------------------------
	for _, v := range viols {
		if v.known != nil {
			fmt.Printf("KNOWN-FINDING: property=C18 %s (%s)\n", v.known.What, v.identity)
		}
	}
	// a failure whose replay file does not reproduce in a fresh process is usually a second
	// sighting of a failure that does (its run inherited state from an earlier run of the same
	// process): when reproducing replay files exist, only those are printed
	anyConfirmed := false
	for _, v := range viols {
		if v.known == nil && (v.confirmed || strings.HasPrefix(v.identity, "O5|") || strings.HasPrefix(v.identity, "O6|burst")) {
			anyConfirmed = true
		}
	}
	printed := 0
	for _, v := range viols {
		if v.known != nil {
			continue
		}
		if anyConfirmed && !v.confirmed && !strings.HasPrefix(v.identity, "O5|") && !strings.HasPrefix(v.identity, "O6|burst") {
			os.Remove(v.replay)
			continue
		}
		if printed >= 5 {
			os.Remove(v.replay)
			continue
		}
		printed++
		fmt.Printf("violation: %s\n", v.summary)
		fmt.Printf("VIOLATION property=C18 replay=%s\n", v.replay)
	}
	fmt.Printf("wall %.1fs; evidence written to %s\n", wall, filepath.Join(verifDir, "evidence", "C18.json"))
	if unknownViol > 0 {
		return 1
	}
	if len(harnessTrouble) > 0 {
		shown := map[string]bool{}
		for _, h := range harnessTrouble {
			if key := firstLines(h, 2); !shown[key] && len(shown) < 10 {
				shown[key] = true
				fmt.Printf("HARNESS-TROUBLE: %s\n", h)
			}
		}
		return 2
	}
	if tot.Runs == 0 || burst.Runs == 0 {
		fmt.Println("HARNESS-TROUBLE: nothing was executed")
		return 2
	}
	fmt.Println("C18 held on everything explored")
	return 0
}

// uncontrolledSources names what in the tree under test can make two executions of one seed
// differ without the simulator being at fault.
func uncontrolledSources(b *build) string {
	var out []string
	if m, _ := b.instr["uncontrolled_imports"].(map[string]any); len(m) > 0 {
		var ks []string
		for k := range m {
			ks = append(ks, k)
		}
		sort.Strings(ks)
		out = append(out, "package(s) "+strings.Join(ks, ", "))
	}
	if gs, _ := b.instr["go_statements"].([]any); len(gs) > 0 {
		out = append(out, "goroutines started inside the library")
	}
	if mr, _ := b.instr["map_ranges"].([]any); len(mr) > 0 {
		out = append(out, fmt.Sprintf("iteration over Go maps (randomised order) at %v", mr))
	}
	if l, _ := b.instr["sync_left_real"].([]any); len(l) > 0 {
		out = append(out, "real sync primitives")
	}
	return strings.Join(out, "; ")
}

func syncStubNote(b *build) []string {
	if b.syncRepointed {
		return []string{fmt.Sprintf("sync primitives replaced by cooperative simulated ones in serial mode (files: %v); real sync in burst mode", b.instr["sync_repointed"])}
	}
	return []string{"none (the tree imports no sync package; the simulated sync shim was not needed)"}
}

func indentJSON(raw []byte) []byte {
	var buf bytes.Buffer
	if err := json.Indent(&buf, raw, "", " "); err != nil {
		return raw
	}
	return buf.Bytes()
}

func tail(s string, n int) string {
	if len(s) > n {
		return "…" + s[len(s)-n:]
	}
	return s
}

func firstLines(s string, n int) string {
	l := strings.Split(s, "\n")
	if len(l) > n {
		l = l[:n]
	}
	return strings.Join(l, " | ")
}

// ---- side files -------------------------------------------------------------------------------------------------------

type sideRec struct{ log, out, sig, flags uint64 }

func readSide(path string) map[uint64]sideRec {
	m := map[uint64]sideRec{}
	b, err := os.ReadFile(path)
	if err != nil {
		return m
	}
	for o := 0; o+40 <= len(b); o += 40 {
		m[binary.LittleEndian.Uint64(b[o:])] = sideRec{binary.LittleEndian.Uint64(b[o+8:]), binary.LittleEndian.Uint64(b[o+16:]),
			binary.LittleEndian.Uint64(b[o+24:]), binary.LittleEndian.Uint64(b[o+32:])}
	}
	return m
}

// compareSides compares the records of run indices present in more than one file.
func compareSides(paths []string) (compared int, logDiff, outDiff *int64) {
	var ms []map[uint64]sideRec
	for _, p := range paths {
		ms = append(ms, readSide(p))
	}
	if len(ms) == 0 {
		return
	}
	var idxs []uint64
	for i := range ms[0] {
		idxs = append(idxs, i)
	}
	sort.Slice(idxs, func(a, b int) bool { return idxs[a] < idxs[b] })
	for _, i := range idxs {
		all := true
		for _, m := range ms[1:] {
			r, ok := m[i]
			if !ok {
				all = false
				continue
			}
			a := ms[0][i]
			if (r.flags|a.flags)&4 != 0 && r.out == a.out {
				continue // a degraded run: its schedule legitimately depends on real time
			}
			if r.out != a.out && outDiff == nil {
				v := int64(i)
				outDiff = &v
			} else if (r.log != a.log || r.sig != a.sig) && logDiff == nil {
				v := int64(i)
				logDiff = &v
			}
		}
		if all {
			compared++
		}
	}
	return
}

func countDistinct(paths []string) (distinct, overlappedDistinct int) {
	all := map[uint64]bool{}
	ov := map[uint64]bool{}
	for _, p := range paths {
		for _, r := range readSide(p) {
			all[r.sig] = true
			if r.flags&1 != 0 {
				ov[r.sig] = true
			}
		}
	}
	return len(all), len(ov)
}

// ---- race reports ----------------------------------------------------------------------------------------------------------

type raceReport struct {
	kind        string // "data race" | "fatal error" | "trouble"
	text        string
	identity    string
	harnessOnly bool
	burst       int64
	worker      int
	gomaxprocs  string
}

var markerRe = regexp.MustCompile(`\.is[A-Z][A-Za-z]*$`)

var burstRe = regexp.MustCompile(`(?m)^BURST (\d+)$`)

func lastBurst(stderr string) int64 {
	ms := burstRe.FindAllStringSubmatch(stderr, -1)
	if len(ms) == 0 {
		return -1
	}
	v, _ := strconv.ParseInt(ms[len(ms)-1][1], 10, 64)
	return v
}

var frameRe = regexp.MustCompile(`(?m)^\s+github\.com/cloudspannerecosystem/memefish(?:@[^/\s]+)?/([^\s:]+\.go):(\d+)`)
var funcRe = regexp.MustCompile(`(?m)^\s*(github\.com/cloudspannerecosystem/memefish[^\s(]*)\(`)

func classifyCrash(p *proc, last int64, w, of int) raceReport {
	text := p.stderr.String()
	rr := raceReport{burst: last, worker: w}
	for _, e := range p.env {
		if strings.HasPrefix(e, "GOMAXPROCS=") {
			rr.gomaxprocs = strings.TrimPrefix(e, "GOMAXPROCS=")
		}
	}
	i := strings.Index(text, "WARNING: DATA RACE")
	j := strings.Index(text, "fatal error:")
	h := strings.Index(text, "BURST-HANG")
	switch {
	case h >= 0 && p.exit == 67:
		// a burst that never finished: tasks blocked under library frames = deadlock of the
		// library's own locking under real threads
		rr.kind = "hang (deadlock or livelock of concurrent calls on real threads)"
		rr.text = text[h:]
		blocked := 0
		for _, g := range strings.Split(rr.text, "\n\n") {
			if strings.Contains(g, "main.execBurst.func") && frameRe.MatchString(g) &&
				(strings.Contains(g, "[sync.") || strings.Contains(g, "[semacquire") || strings.Contains(g, "[chan ") || strings.Contains(g, "[select")) {
				blocked++
			}
		}
		if blocked == 0 {
			rr.kind = "trouble"
			rr.text = fmt.Sprintf("%s: burst did not finish but no task is blocked under library frames: %s", p.name, tail(text, 1500))
			return rr
		}
	case i >= 0:
		rr.kind = "data race"
		rr.text = text[i:]
	case j >= 0:
		rr.kind = "fatal error"
		rr.text = text[j:]
	default:
		rr.kind = "trouble"
		rr.text = fmt.Sprintf("%s: exit %d killed=%v: %s", p.name, p.exit, p.killed, tail(text, 1500))
		return rr
	}
	if len(rr.text) > 6000 {
		rr.text = rr.text[:6000]
	}
	// identity: the library frames (file:line without the verifsimrt shim), first two distinct
	var frames []string
	seenF := map[string]bool{}
	for _, m := range frameRe.FindAllStringSubmatch(rr.text, -1) {
		if strings.HasPrefix(m[1], "verifsimrt/") || strings.HasPrefix(m[1], "verifsync/") {
			continue
		}
		f := m[1] + ":" + m[2]
		if !seenF[f] {
			seenF[f] = true
			frames = append(frames, f)
		}
	}
	if len(frames) == 0 {
		rr.harnessOnly = true
	}
	if len(frames) > 2 {
		frames = frames[:2]
	}
	rr.identity = "O5|" + rr.kind + "|" + strings.Join(frames, "|")
	if p.exit == 67 {
		rr.identity = "O6|burst-hang|" + strings.Join(frames, "|")
	}
	return rr
}

// ---- replay -------------------------------------------------------------------------------------------------------------------

func doReplay(file string) int {
	defer cleanup()
	abs, err := filepath.Abs(file)
	if err != nil {
		trouble("%v", err)
	}
	raw, err := os.ReadFile(abs)
	if err != nil {
		trouble("%v", err)
	}
	var rf struct {
		Mode       string `json:"mode"`
		Gomaxprocs any    `json:"gomaxprocs"`
		Report     string `json:"report"`
	}
	if err := json.Unmarshal(raw, &rf); err != nil {
		trouble("%s: %v", file, err)
	}
	burst := rf.Mode == "burst"
	b := prepare(burst, !burst)
	bin := b.serialBin
	env := []string{"GOMAXPROCS=1"}
	if burst {
		bin = b.raceBin
		g := fmt.Sprint(rf.Gomaxprocs)
		if g == "" || g == "0" || g == "<nil>" {
			g = "8"
		}
		env = []string{"GOMAXPROCS=" + g, "GORACE=halt_on_error=1 exitcode=66 history_size=4"}
	}
	root := b.rootSerial
	if burst {
		root = b.rootRace
	}
	cmd := exec.Command(bin, "-mode", "replay", "-file", abs, "-root", root)
	cmd.Env = append(goEnv(), env...)
	var out bytes.Buffer
	cmd.Stdout = io.MultiWriter(os.Stdout, &out)
	cmd.Stderr = io.MultiWriter(os.Stdout, &out)
	err = cmd.Run()
	code := 0
	if cmd.ProcessState != nil {
		code = cmd.ProcessState.ExitCode()
	}
	switch code {
	case 0:
		return 0
	case 1:
		return 1
	case 66:
		fmt.Printf("REPRODUCED oracle=O5 (race detector)\nVIOLATION property=C18 replay=%s\n", abs)
		return 1
	case 67:
		fmt.Printf("REPRODUCED oracle=O6 (burst did not finish: tasks blocked under library frames)\nVIOLATION property=C18 replay=%s\n", abs)
		return 1
	}
	if strings.Contains(out.String(), "fatal error:") {
		fmt.Printf("REPRODUCED oracle=O5 (fatal runtime error)\nVIOLATION property=C18 replay=%s\n", abs)
		return 1
	}
	fmt.Printf("HARNESS-TROUBLE: replay exited %d: %v\n", code, err)
	return 2
}
