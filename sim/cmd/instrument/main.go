// Command instrument rewrites a scratch copy of the memefish module so that every
// statement of the library is preceded by a cooperative yield point
// (`__vsim.Y(<site>)`), see /verif/DESIGN.md §2.2.
//
// It never touches /repo: it is given the root of a *copy*.  Line numbers are preserved
// (all insertions are on existing lines), so positions in panics, race reports and the site
// table refer to the original source.
//
// usage: instrument -root <copy of module> -rt <dir of verifsimrt sources>
//
//	[-sync <dir of verifsync sources>] [-repoint-sync]
//
// Output: the copy is rewritten in place; <root>/verifsimrt (and <root>/verifsync) are
// created; <root>/verifsimrt/sites_gen.go holds the site table; a JSON summary is printed.
package main

import (
	"bytes"
	"encoding/json"
	"flag"
	"fmt"
	"go/ast"
	"go/parser"
	"go/token"
	"os"
	"path/filepath"
	"sort"
	"strconv"
	"strings"
)

const (
	clsFunc  = 1 // first statement of a function body
	clsLoop  = 2 // first statement of a loop body
	clsStmt  = 4 // any other statement
	clsToken = 8 // entry of the lexer's token step
	// clsGlobal: the enclosing function mentions a package-level variable of its package:
	// where interleavings can matter (what the preemption sweep and the rare-site strategy prefer)
	clsGlobal = 16
)

// pkgVars[dir] = names of the package-level variables declared in the package in dir.
var pkgVars = map[string]map[string]bool{}

// exportedVars: exported package-level variables of any package of the module.
var exportedVars = map[string]bool{}

// mapVars[dir]: package-level variables that are maps (by declared type or initialiser);
// mapRanges: `range` statements over such a variable, over a local initialised as a map, or
// over a map literal / make(map...) - Go randomises the order, the simulator cannot own it.
var (
	mapVars   = map[string]map[string]bool{}
	mapRanges []string
)

func isMapExpr(e ast.Expr) bool {
	switch x := e.(type) {
	case *ast.MapType:
		return true
	case *ast.CompositeLit:
		_, ok := x.Type.(*ast.MapType)
		return ok
	case *ast.CallExpr:
		if id, ok := x.Fun.(*ast.Ident); ok && id.Name == "make" && len(x.Args) > 0 {
			_, ok := x.Args[0].(*ast.MapType)
			return ok
		}
		if se, ok := x.Fun.(*ast.SelectorExpr); ok {
			if id, ok := se.X.(*ast.Ident); ok && id.Name == "maps" {
				return true // maps.Keys / maps.Values / maps.All: iteration order of a map
			}
		}
	}
	return false
}

type site struct {
	File  string `json:"file"`
	Line  int    `json:"line"`
	Func  string `json:"func"`
	Class int    `json:"class"`
}

type insertion struct {
	off  int
	text string
}

var (
	modPath      string
	sites        []site
	curVars      map[string]bool // package-level variables of the package being instrumented
	inGlobalFunc bool
)

// mentionsGlobal reports whether the function body mentions a package-level variable of its
// package (by name; shadowing is ignored: an over-approximation is fine for a heuristic).
func mentionsGlobal(body *ast.BlockStmt) bool {
	if body == nil || len(curVars)+len(exportedVars) == 0 {
		return false
	}
	found := false
	ast.Inspect(body, func(n ast.Node) bool {
		if id, ok := n.(*ast.Ident); ok && (curVars[id.Name] || exportedVars[id.Name]) {
			found = true
		}
		return !found
	})
	return found
}

func main() {
	root := flag.String("root", "", "root of the scratch copy of the module")
	rtDir := flag.String("rt", "", "directory with the verifsimrt sources")
	syncDir := flag.String("sync", "", "directory with the verifsync sources")
	repoint := flag.Bool("repoint-sync", false, "re-point `sync` imports to verifsync where possible")
	flag.Parse()
	if *root == "" || *rtDir == "" {
		fatal("need -root and -rt")
	}
	gomod, err := os.ReadFile(filepath.Join(*root, "go.mod"))
	if err != nil {
		fatal("%v", err)
	}
	for _, l := range strings.Split(string(gomod), "\n") {
		if strings.HasPrefix(l, "module ") {
			modPath = strings.TrimSpace(strings.TrimPrefix(l, "module "))
		}
	}
	if modPath == "" {
		fatal("no module line in go.mod")
	}

	skipDirs := map[string]bool{"tools": true, "examples": true, "docs": true, "testdata": true,
		"images": true, "verifsimrt": true, "verifsync": true, "vendor": true}
	var files []string
	err = filepath.Walk(*root, func(p string, info os.FileInfo, err error) error {
		if err != nil {
			return err
		}
		rel, _ := filepath.Rel(*root, p)
		if info.IsDir() {
			base := filepath.Base(p)
			if rel != "." && (skipDirs[strings.Split(rel, string(filepath.Separator))[0]] || strings.HasPrefix(base, ".") || strings.HasPrefix(base, "_")) {
				return filepath.SkipDir
			}
			return nil
		}
		if strings.HasSuffix(p, ".go") && !strings.HasSuffix(p, "_test.go") {
			files = append(files, p)
		}
		return nil
	})
	if err != nil {
		fatal("%v", err)
	}
	sort.Strings(files)

	// package-level variables, per package directory
	for _, f := range files {
		src, err := os.ReadFile(f)
		if err != nil {
			fatal("%v", err)
		}
		af, err := parser.ParseFile(token.NewFileSet(), f, src, parser.SkipObjectResolution)
		if err != nil {
			fatal("parse %s: %v", f, err)
		}
		dir := filepath.Dir(f)
		if pkgVars[dir] == nil {
			pkgVars[dir] = map[string]bool{}
		}
		for _, d := range af.Decls {
			if gd, ok := d.(*ast.GenDecl); ok && gd.Tok == token.VAR {
				for _, sp := range gd.Specs {
					if vs, ok := sp.(*ast.ValueSpec); ok {
						for i, n := range vs.Names {
							isMap := vs.Type != nil && isMapExpr(vs.Type)
							if i < len(vs.Values) && isMapExpr(vs.Values[i]) {
								isMap = true
							}
							if isMap {
								if mapVars[dir] == nil {
									mapVars[dir] = map[string]bool{}
								}
								mapVars[dir][n.Name] = true
								if n.IsExported() {
									exportedMapVars[n.Name] = true
								}
							}
							if n.Name != "_" {
								pkgVars[dir][n.Name] = true
								if n.IsExported() {
									exportedVars[n.Name] = true // reachable from the other packages as pkg.Name
								}
							}
						}
					}
				}
			}
		}
	}
	// the simulated sync primitives are only sound if every goroutine that touches them is a
	// simulated task: a tree that starts goroutines inside the library keeps the real package
	if *repoint {
		for _, f := range files {
			src, err := os.ReadFile(f)
			if err != nil {
				fatal("%v", err)
			}
			af, err := parser.ParseFile(token.NewFileSet(), f, src, parser.SkipObjectResolution)
			if err != nil {
				fatal("parse %s: %v", f, err)
			}
			if af.Name.Name == "main" {
				continue
			}
			ast.Inspect(af, func(n ast.Node) bool {
				if _, ok := n.(*ast.GoStmt); ok {
					*repoint = false
				}
				return true
			})
		}
	}

	summary := map[string]any{}
	var syncFiles, syncRepointed, syncLeft []string
	var goStmts, chanOps []string
	uncontrolled := map[string][]string{} // package -> files importing it
	pkgs := map[string]bool{}
	for _, f := range files {
		rel, _ := filepath.Rel(*root, f)
		src, err := os.ReadFile(f)
		if err != nil {
			fatal("%v", err)
		}
		fset := token.NewFileSet()
		af, err := parser.ParseFile(fset, f, src, parser.ParseComments|parser.SkipObjectResolution)
		if err != nil {
			fatal("parse %s: %v", rel, err)
		}
		if af.Name.Name == "main" {
			continue // a program, not library code
		}
		pkgs[filepath.Dir(rel)] = true
		for _, im := range af.Imports {
			switch ip, _ := strconv.Unquote(im.Path.Value); ip {
			case "time", "math/rand", "math/rand/v2", "crypto/rand", "os", "runtime", "weak", "unique", "hash/maphash", "unsafe", "reflect":
				uncontrolled[ip] = append(uncontrolled[ip], rel)
			}
		}
		curVars = pkgVars[filepath.Dir(f)]
		curMapVars = mapVars[filepath.Dir(f)]
		curLocalMaps = map[string]bool{}
		ast.Inspect(af, func(n ast.Node) bool {
			switch x := n.(type) {
			case *ast.AssignStmt:
				for i, r := range x.Rhs {
					if i < len(x.Lhs) && isMapExpr(r) {
						if id, ok := x.Lhs[i].(*ast.Ident); ok {
							curLocalMaps[id.Name] = true
						}
					}
				}
			case *ast.ValueSpec:
				for i, nm := range x.Names {
					if (x.Type != nil && isMapExpr(x.Type)) || (i < len(x.Values) && isMapExpr(x.Values[i])) {
						curLocalMaps[nm.Name] = true
					}
				}
			}
			return true
		})
		res := instrumentFile(fset, af, src, rel, *repoint)
		if res.importsSync {
			syncFiles = append(syncFiles, rel)
			if res.syncRepointed {
				syncRepointed = append(syncRepointed, rel)
			} else {
				syncLeft = append(syncLeft, rel)
			}
		}
		goStmts = append(goStmts, res.goStmts...)
		chanOps = append(chanOps, res.chanOps...)
		if res.out != nil {
			if err := os.WriteFile(f, res.out, 0o644); err != nil {
				fatal("%v", err)
			}
		}
	}

	// runtime packages
	copyDir(*rtDir, filepath.Join(*root, "verifsimrt"))
	if *syncDir != "" {
		copyDir(*syncDir, filepath.Join(*root, "verifsync"))
		fixImports(filepath.Join(*root, "verifsync"))
	}
	writeSiteTable(filepath.Join(*root, "verifsimrt", "sites_gen.go"))
	if sb, err := json.Marshal(sites); err == nil {
		os.WriteFile(filepath.Join(*root, "verifsimrt", "sites.json"), sb, 0o644)
	}

	var pk []string
	for p := range pkgs {
		pk = append(pk, p)
	}
	sort.Strings(pk)
	summary["module"] = modPath
	summary["files"] = len(files)
	summary["packages"] = pk
	summary["sites"] = len(sites)
	cnt := map[string]int{}
	for _, s := range sites {
		switch {
		case s.Class&clsFunc != 0:
			cnt["func"]++
		case s.Class&clsLoop != 0:
			cnt["loop"]++
		default:
			cnt["stmt"]++
		}
		if s.Class&clsToken != 0 {
			cnt["token"]++
		}
		if s.Class&clsGlobal != 0 {
			cnt["in-functions-mentioning-package-variables"]++
		}
	}
	summary["sites_by_class"] = cnt
	summary["sync_files"] = syncFiles
	summary["sync_repointed"] = syncRepointed
	summary["sync_left_real"] = syncLeft
	summary["go_statements"] = goStmts
	// sources of nondeterminism the simulator does not own (none on the pinned tree)
	summary["uncontrolled_imports"] = uncontrolled
	summary["map_ranges"] = mapRanges
	summary["chan_ops"] = chanOps
	b, _ := json.MarshalIndent(summary, "", " ")
	fmt.Println(string(b))
}

type fileResult struct {
	out           []byte
	importsSync   bool
	syncRepointed bool
	goStmts       []string
	chanOps       []string
}

// sync identifiers that verifsync implements.
var syncSupported = map[string]bool{
	"Mutex": true, "RWMutex": true, "Once": true, "Pool": true, "Map": true,
	"Locker": true, "OnceFunc": true, "OnceValue": true, "OnceValues": true,
}

func instrumentFile(fset *token.FileSet, af *ast.File, src []byte, rel string, repoint bool) fileResult {
	var res fileResult
	var ins []insertion
	tf := fset.File(af.Pos())
	off := func(p token.Pos) int { return tf.Offset(p) }

	// sync import handling
	var syncImp *ast.ImportSpec
	syncName := "sync"
	for _, im := range af.Imports {
		if p, _ := strconv.Unquote(im.Path.Value); p == "sync" {
			syncImp = im
			if im.Name != nil {
				syncName = im.Name.Name
			}
		}
	}
	if syncImp != nil {
		res.importsSync = true
		ok := repoint && syncName != "." && syncName != "_"
		if ok {
			ast.Inspect(af, func(n ast.Node) bool {
				if se, isSel := n.(*ast.SelectorExpr); isSel {
					if id, isID := se.X.(*ast.Ident); isID && id.Name == syncName && !syncSupported[se.Sel.Name] {
						ok = false
					}
				}
				return true
			})
		}
		if ok {
			res.syncRepointed = true
			// replace the import spec text; keep it on the same line
			start, end := off(syncImp.Pos()), off(syncImp.End())
			ins = append(ins, insertion{off: start, text: fmt.Sprintf("%s %q", syncName, modPath+"/verifsync")})
			// blank out the original spec
			for i := start; i < end; i++ {
				src[i] = ' '
			}
		}
	}

	funcName := ""
	var addList func(list []ast.Stmt, first int)
	addSite := func(p token.Pos, class int) {
		pos := fset.Position(p)
		id := len(sites)
		if class&clsFunc != 0 && (funcName == "Lexer.nextToken") {
			class |= clsToken
		}
		if inGlobalFunc {
			class |= clsGlobal
		}
		sites = append(sites, site{File: rel, Line: pos.Line, Func: funcName, Class: class})
		ins = append(ins, insertion{off: off(p), text: fmt.Sprintf("__vsim.Y(%d);", id)})
	}
	addList = func(list []ast.Stmt, first int) {
		for i, s := range list {
			switch s.(type) {
			case *ast.CaseClause, *ast.CommClause:
				continue // bodies of switch/select hold clauses, not statements
			}
			class := clsStmt
			if i == 0 {
				class = first
			}
			addSite(s.Pos(), class)
		}
	}
	emptyBody := func(b *ast.BlockStmt, class int) {
		// `{}` -> `{__vsim.Y(n);}`
		pos := fset.Position(b.Lbrace)
		id := len(sites)
		if inGlobalFunc {
			class |= clsGlobal
		}
		sites = append(sites, site{File: rel, Line: pos.Line, Func: funcName, Class: class})
		ins = append(ins, insertion{off: off(b.Lbrace) + 1, text: fmt.Sprintf("__vsim.Y(%d);", id)})
	}

	var walk func(n ast.Node)
	walkBody := func(b *ast.BlockStmt, class int) {
		if b == nil {
			return
		}
		if len(b.List) == 0 {
			emptyBody(b, class)
			return
		}
		addList(b.List, class)
		for _, s := range b.List {
			walk(s)
		}
	}
	walk = func(n ast.Node) {
		if n == nil {
			return
		}
		ast.Inspect(n, func(m ast.Node) bool {
			switch x := m.(type) {
			case *ast.FuncDecl:
				old := funcName
				funcName = x.Name.Name
				if x.Recv != nil && len(x.Recv.List) > 0 {
					funcName = recvName(x.Recv.List[0].Type) + "." + x.Name.Name
				}
				oldG := inGlobalFunc
				inGlobalFunc = mentionsGlobal(x.Body)
				walkBody(x.Body, clsFunc)
				inGlobalFunc = oldG
				funcName = old
				return false
			case *ast.FuncLit:
				old := funcName
				funcName = funcName + ".func"
				walkBody(x.Body, clsFunc)
				funcName = old
				return false
			case *ast.ForStmt:
				walk(x.Init)
				walk(x.Cond)
				walk(x.Post)
				walkBody(x.Body, clsLoop)
				return false
			case *ast.RangeStmt:
				if rangesOverMap(x.X) {
					p := fset.Position(x.Pos())
					mapRanges = append(mapRanges, fmt.Sprintf("%s:%d", rel, p.Line))
				}
				walk(x.X)
				walkBody(x.Body, clsLoop)
				return false
			case *ast.BlockStmt:
				if len(x.List) > 0 {
					// switch/select bodies: List holds clauses -> addList skips them
					addList(x.List, clsStmt)
				}
				for _, s := range x.List {
					walk(s)
				}
				return false
			case *ast.CaseClause:
				for _, e := range x.List {
					walk(e)
				}
				addList(x.Body, clsStmt)
				for _, s := range x.Body {
					walk(s)
				}
				return false
			case *ast.CommClause:
				walk(x.Comm)
				addList(x.Body, clsStmt)
				for _, s := range x.Body {
					walk(s)
				}
				return false
			case *ast.GoStmt:
				p := fset.Position(x.Pos())
				res.goStmts = append(res.goStmts, fmt.Sprintf("%s:%d", rel, p.Line))
			case *ast.SendStmt:
				p := fset.Position(x.Pos())
				res.chanOps = append(res.chanOps, fmt.Sprintf("%s:%d", rel, p.Line))
			case *ast.UnaryExpr:
				if x.Op == token.ARROW {
					p := fset.Position(x.Pos())
					res.chanOps = append(res.chanOps, fmt.Sprintf("%s:%d", rel, p.Line))
				}
			case *ast.SelectStmt:
				p := fset.Position(x.Pos())
				res.chanOps = append(res.chanOps, fmt.Sprintf("%s:%d", rel, p.Line))
			}
			return true
		})
	}
	nBefore := len(sites)
	for _, d := range af.Decls {
		walk(d)
	}
	if len(sites) > nBefore {
		// import on the package line keeps all line numbers unchanged
		ins = append(ins, insertion{off: off(af.Name.End()), text: fmt.Sprintf("; import __vsim %q", modPath+"/verifsimrt")})
	}
	if len(ins) == 0 {
		return res
	}
	sort.SliceStable(ins, func(i, j int) bool { return ins[i].off < ins[j].off })
	var out bytes.Buffer
	last := 0
	for _, in := range ins {
		out.Write(src[last:in.off])
		out.WriteString(in.text)
		last = in.off
	}
	out.Write(src[last:])
	res.out = out.Bytes()
	// sanity: the result must parse
	if _, err := parser.ParseFile(token.NewFileSet(), rel, res.out, parser.SkipObjectResolution); err != nil {
		fatal("instrumented %s does not parse: %v", rel, err)
	}
	return res
}

// curMapVars: map-typed package-level variables of the package being instrumented;
// curLocalMaps: local variables assigned a map in the file being instrumented (by name).
var (
	curMapVars   map[string]bool
	curLocalMaps map[string]bool
)

func rangesOverMap(e ast.Expr) bool {
	switch x := e.(type) {
	case *ast.Ident:
		return curMapVars[x.Name] || curLocalMaps[x.Name]
	case *ast.SelectorExpr:
		return exportedMapVars[x.Sel.Name]
	case *ast.ParenExpr:
		return rangesOverMap(x.X)
	}
	return isMapExpr(e)
}

var exportedMapVars = map[string]bool{}

func recvName(e ast.Expr) string {
	switch x := e.(type) {
	case *ast.StarExpr:
		return recvName(x.X)
	case *ast.Ident:
		return x.Name
	case *ast.IndexExpr:
		return recvName(x.X)
	case *ast.IndexListExpr:
		return recvName(x.X)
	}
	return "?"
}

func writeSiteTable(path string) {
	var b bytes.Buffer
	b.WriteString("// Code generated by verif instrument; DO NOT EDIT.\n\npackage verifsimrt\n\n")
	fmt.Fprintf(&b, "// NumSites is the number of yield sites in the instrumented tree.\nconst NumSites = %d\n\n", len(sites))
	b.WriteString("// SiteClass[i] is the class bit set of site i (1 func entry, 2 loop body, 4 statement, 8 token step, 16 function mentions a package-level variable).\nvar SiteClass = [...]uint8{")
	for i, s := range sites {
		if i%32 == 0 {
			b.WriteString("\n\t")
		}
		fmt.Fprintf(&b, "%d,", s.Class)
	}
	b.WriteString("\n}\n\n// SiteName[i] is file:line (function) of site i.\nvar SiteName = [...]string{\n")
	for _, s := range sites {
		fmt.Fprintf(&b, "\t%q,\n", fmt.Sprintf("%s:%d (%s)", s.File, s.Line, s.Func))
	}
	b.WriteString("}\n")
	if len(sites) == 0 {
		// keep the arrays addressable
		b.Reset()
		b.WriteString("package verifsimrt\n\nconst NumSites = 0\n\nvar SiteClass = [...]uint8{0}\nvar SiteName = [...]string{\"\"}\n")
	}
	if err := os.WriteFile(path, b.Bytes(), 0o644); err != nil {
		fatal("%v", err)
	}
}

func copyDir(src, dst string) {
	if err := os.MkdirAll(dst, 0o755); err != nil {
		fatal("%v", err)
	}
	ents, err := os.ReadDir(src)
	if err != nil {
		fatal("%v", err)
	}
	for _, e := range ents {
		if e.IsDir() {
			continue
		}
		b, err := os.ReadFile(filepath.Join(src, e.Name()))
		if err != nil {
			fatal("%v", err)
		}
		if err := os.WriteFile(filepath.Join(dst, e.Name()), b, 0o644); err != nil {
			fatal("%v", err)
		}
	}
}

// fixImports rewrites the placeholder import path of verifsimrt inside verifsync.
func fixImports(dir string) {
	ents, _ := os.ReadDir(dir)
	for _, e := range ents {
		if !strings.HasSuffix(e.Name(), ".go") {
			continue
		}
		p := filepath.Join(dir, e.Name())
		b, err := os.ReadFile(p)
		if err != nil {
			fatal("%v", err)
		}
		b = bytes.ReplaceAll(b, []byte(`"VERIFMOD/verifsimrt"`), []byte(strconv.Quote(modPath+"/verifsimrt")))
		if err := os.WriteFile(p, b, 0o644); err != nil {
			fatal("%v", err)
		}
	}
}

func fatal(f string, a ...any) {
	fmt.Fprintf(os.Stderr, "instrument: "+f+"\n", a...)
	os.Exit(2)
}
