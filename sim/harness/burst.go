package main

// Burst mode (DESIGN §2.7): the tasks of a plan are released from one barrier and run on
// real threads with no synchronisation between them; the binary is built with -race, so the
// race detector is the oracle for "without data races" (O5); O1/O3/O4 are evaluated after
// the join.

import (
	"fmt"
	"os"
	"runtime"
	"sync"
	"time"

	rt "github.com/cloudspannerecosystem/memefish/verifsimrt"
)

const burstHang = 20 * time.Second

type burstTask struct {
	plan     *TaskPlan
	hashes   []uint64
	hashes2  []uint64
	retained []*retained
}

func execBurst(plan *Plan, refs *refTable) *runResult {
	res := &runResult{Faults: map[string]int{}}
	old := rt.Hook
	rt.Hook = nil
	defer func() { rt.Hook = old }()
	s := &sim{plan: plan, refs: refs, faults: res.Faults}
	for i, k := range plan.Shared {
		sub := callEntry(int(k.Entry), pathOf(k), pool.inputs[k.Input].text)
		sub.initSeqs()
		r := &retained{sub: sub, task: -1, op: i, key: k, share: true}
		r.h0 = structHash(sub.val, sub.err)
		s.shared = append(s.shared, r)
	}
	tasks := make([]*burstTask, len(plan.Tasks))
	var wg sync.WaitGroup
	start := make(chan struct{})
	for i := range plan.Tasks {
		bt := &burstTask{plan: &plan.Tasks[i]}
		bt.hashes = make([]uint64, len(bt.plan.Ops))
		bt.hashes2 = make([]uint64, len(bt.plan.Ops))
		tasks[i] = bt
		res.Ops += len(bt.plan.Ops)
		wg.Add(1)
		go func(id int, bt *burstTask) {
			defer wg.Done()
			<-start
			for j := range bt.plan.Ops {
				op := &bt.plan.Ops[j]
				var sh *subject
				if op.Shared >= 0 && op.Shared < len(s.shared) && op.Key.Variant != vEditSQL {
					sh = s.shared[op.Shared].sub
				}
				r := runOpX(op.Key, sh, false, op.Fresh)
				bt.hashes[j] = r.hash
				if sh == nil {
					rr := &retained{sub: r.sub, task: id, op: j, key: op.Key}
					rr.h0 = structHash(r.sub.val, r.sub.err)
					bt.retained = append(bt.retained, rr)
				}
				if op.Twice {
					r2 := runOpX(op.Key, sh, false, op.Fresh)
					bt.hashes2[j] = r2.hash
				}
				if j&1 == 1 {
					runtime.Gosched()
				}
			}
		}(i, bt)
	}
	// allowance: 20 s plus 1 s per 20 000 solo yields of the plan (a large input takes longer)
	hang := burstHang
	if refs != nil {
		var steps int64
		for i := range plan.Tasks {
			for _, op := range plan.Tasks[i].Ops {
				if n, ok := refs.steps(op.Key); ok {
					steps += n
				}
			}
		}
		hang += time.Duration(steps/20000) * time.Second
	}
	close(start)
	// a burst takes milliseconds; one that does not finish is a hang of the library under
	// real threads (deadlock / livelock): dump all stacks for the driver and give up
	joined := make(chan struct{})
	go func() { wg.Wait(); close(joined) }()
	select {
	case <-joined:
	case <-time.After(hang):
		buf := make([]byte, 1<<20)
		n := runtime.Stack(buf, true)
		fmt.Fprintf(os.Stderr, "BURST-HANG after %v\n%s\n", hang, buf[:n])
		os.Exit(67)
	}
	// oracles after the join
	for id, bt := range tasks {
		t := &task{id: id, plan: bt.plan}
		for j, op := range bt.plan.Ops {
			s.checkOutcome(t, j, op.Key, bt.hashes[j], "O1")
			if op.Twice {
				s.checkOutcome(t, j, op.Key, bt.hashes2[j], "O2")
			}
			if op.Shared >= 0 {
				res.Faults["shared-read"]++
			}
			res.Outcomes = append(res.Outcomes, bt.hashes[j])
		}
		t.retained = bt.retained
		s.tasks = append(s.tasks, t)
		for _, r := range bt.retained {
			s.checkRetained(r, "after the burst")
		}
	}
	for _, r := range s.shared {
		s.checkRetained(r, "after the burst")
	}
	for _, msg := range drainInvariants() {
		s.fails = append(s.fails, failure{Oracle: "O7", Detail: msg, Key: "burst"})
	}
	s.checkDisjoint()
	res.Fails = s.fails
	res.Overlapped = len(plan.Tasks) > 1
	return res
}
