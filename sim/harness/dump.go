package main

// Canonical deep dump of everything a library call returned (DESIGN §2.3).
//
// The dump contains exported fields only, type names, nil-ness, lengths, every position,
// every string verbatim.  It contains no addresses.  It is fed either to a 64-bit hash or to
// a text buffer (for diffs) through the sink interface.

import (
	"fmt"
	"reflect"
	"sort"
	"strings"
)

type sink interface {
	tag(s string) // structure marker (type name, field name, "nil", ...)
	str(s string) // string payload
	num(n int64)  // numeric payload
	push()
	pop()
}

// ---- hash sink -------------------------------------------------------------------------

type hashSink struct{ h uint64 }

const (
	fnvOff   = 14695981039346656037
	fnvPrime = 1099511628211
)

func newHashSink() *hashSink { return &hashSink{h: fnvOff} }

func (s *hashSink) bytes(b string) {
	h := s.h
	for i := 0; i < len(b); i++ {
		h ^= uint64(b[i])
		h *= fnvPrime
	}
	s.h = h
}
func (s *hashSink) word(x uint64) {
	h := s.h
	for i := 0; i < 8; i++ {
		h ^= x & 0xff
		h *= fnvPrime
		x >>= 8
	}
	s.h = h
}
func (s *hashSink) tag(t string) { s.word(0xA1); s.bytes(t) }
func (s *hashSink) str(t string) { s.word(0xB2); s.word(uint64(len(t))); s.bytes(t) }
func (s *hashSink) num(n int64)  { s.word(0xC3); s.word(uint64(n)) }
func (s *hashSink) push()        { s.word(0xD4) }
func (s *hashSink) pop()         { s.word(0xE5) }
func (s *hashSink) sum() uint64  { return mix64(s.h) }

func mix64(z uint64) uint64 {
	z = (z ^ (z >> 30)) * 0xbf58476d1ce4e5b9
	z = (z ^ (z >> 27)) * 0x94d049bb133111eb
	return z ^ (z >> 31)
}

// ---- text sink -------------------------------------------------------------------------

type textSink struct {
	b     strings.Builder
	depth int
	limit int // max bytes (0 = unlimited)
}

func (s *textSink) line(f string, a ...any) {
	if s.limit > 0 && s.b.Len() > s.limit {
		return
	}
	for i := 0; i < s.depth; i++ {
		s.b.WriteString(" ")
	}
	fmt.Fprintf(&s.b, f, a...)
	s.b.WriteByte('\n')
}
func (s *textSink) tag(t string) { s.line("%s", t) }
func (s *textSink) str(t string) { s.line("%q", t) }
func (s *textSink) num(n int64)  { s.line("%d", n) }
func (s *textSink) push()        { s.depth++ }
func (s *textSink) pop()         { s.depth-- }

// ---- tee ---------------------------------------------------------------------------------

type teeSink struct{ a, b sink }

func (s teeSink) tag(t string) { s.a.tag(t); s.b.tag(t) }
func (s teeSink) str(t string) { s.a.str(t); s.b.str(t) }
func (s teeSink) num(n int64)  { s.a.num(n); s.b.num(n) }
func (s teeSink) push()        { s.a.push(); s.b.push() }
func (s teeSink) pop()         { s.a.pop(); s.b.pop() }

// ---- walker --------------------------------------------------------------------------------

type dumper struct {
	s    sink
	path map[visitKey]bool // cycle guard: pointers on the current path
}

type visitKey struct {
	p uintptr
	t reflect.Type
}

func dumpAny(s sink, x any) {
	d := dumper{s: s, path: map[visitKey]bool{}}
	if x == nil {
		s.tag("<nil>")
		return
	}
	d.value(reflect.ValueOf(x))
}

func (d *dumper) value(v reflect.Value) {
	s := d.s
	switch v.Kind() {
	case reflect.Invalid:
		s.tag("<invalid>")
	case reflect.Interface:
		if v.IsNil() {
			s.tag("<nil-iface>")
			return
		}
		d.value(v.Elem())
	case reflect.Pointer:
		if v.IsNil() {
			s.tag("<nil>" + v.Type().String())
			return
		}
		k := visitKey{v.Pointer(), v.Type()}
		if d.path[k] {
			s.tag("<cycle>" + v.Type().String())
			return
		}
		d.path[k] = true
		s.tag("&")
		d.value(v.Elem())
		delete(d.path, k)
	case reflect.Struct:
		t := v.Type()
		s.tag(t.String())
		s.push()
		for i := 0; i < t.NumField(); i++ {
			f := t.Field(i)
			if !f.IsExported() {
				continue
			}
			s.tag(f.Name)
			s.push()
			d.value(v.Field(i))
			s.pop()
		}
		s.pop()
	case reflect.Slice:
		if v.IsNil() {
			s.tag("<nilslice>" + v.Type().String())
			return
		}
		if v.Type().Elem().Kind() == reflect.Uint8 {
			s.tag("bytes")
			s.str(string(v.Bytes()))
			return
		}
		s.tag(v.Type().String())
		s.num(int64(v.Len()))
		s.push()
		for i := 0; i < v.Len(); i++ {
			d.value(v.Index(i))
		}
		s.pop()
	case reflect.Array:
		s.tag(v.Type().String())
		s.push()
		for i := 0; i < v.Len(); i++ {
			d.value(v.Index(i))
		}
		s.pop()
	case reflect.String:
		if t := v.Type(); t.PkgPath() != "" {
			s.tag(t.String())
		}
		s.str(v.String())
	case reflect.Bool:
		if v.Bool() {
			s.tag("true")
		} else {
			s.tag("false")
		}
	case reflect.Int, reflect.Int8, reflect.Int16, reflect.Int32, reflect.Int64:
		s.num(v.Int())
	case reflect.Uint, reflect.Uint8, reflect.Uint16, reflect.Uint32, reflect.Uint64, reflect.Uintptr:
		s.num(int64(v.Uint()))
	case reflect.Float32, reflect.Float64:
		s.str(fmt.Sprintf("%v", v.Float()))
	case reflect.Map:
		if v.IsNil() {
			s.tag("<nilmap>" + v.Type().String())
			return
		}
		s.tag(v.Type().String())
		s.num(int64(v.Len()))
		keys := v.MapKeys()
		type kv struct {
			k string
			v reflect.Value
		}
		var kvs []kv
		for _, k := range keys {
			ts := &textSink{}
			(&dumper{s: ts, path: map[visitKey]bool{}}).value(k)
			kvs = append(kvs, kv{ts.b.String(), v.MapIndex(k)})
		}
		sort.Slice(kvs, func(i, j int) bool { return kvs[i].k < kvs[j].k })
		s.push()
		for _, e := range kvs {
			s.str(e.k)
			d.value(e.v)
		}
		s.pop()
	case reflect.Func, reflect.Chan, reflect.UnsafePointer:
		if v.IsNil() {
			s.tag("<nil>" + v.Type().String())
		} else {
			s.tag("<set>" + v.Type().String())
		}
	default:
		s.tag("<kind " + v.Kind().String() + ">")
	}
}

// structHash is the O3 fingerprint of a returned value: a hash of its canonical dump.
func structHash(vals ...any) uint64 {
	h := newHashSink()
	for _, v := range vals {
		dumpAny(h, v)
	}
	return h.sum()
}

// ---- reachable pointer sets (O4 structural accelerator) -------------------------------------

type extent struct{ lo, hi uintptr }

// reach collects the memory extents of non-zero-size structs reached through pointers and
// of slice backing arrays (up to their capacity: `append` may write there).
func reach(x any, out map[extent]struct{}) {
	if x == nil {
		return
	}
	seen := map[visitKey]bool{}
	var rec func(v reflect.Value)
	rec = func(v reflect.Value) {
		switch v.Kind() {
		case reflect.Interface:
			if !v.IsNil() {
				rec(v.Elem())
			}
		case reflect.Pointer:
			if v.IsNil() {
				return
			}
			k := visitKey{v.Pointer(), v.Type()}
			if seen[k] {
				return
			}
			seen[k] = true
			if sz := v.Type().Elem().Size(); sz > 0 {
				out[extent{v.Pointer(), v.Pointer() + sz}] = struct{}{}
			}
			rec(v.Elem())
		case reflect.Struct:
			for i := 0; i < v.NumField(); i++ {
				rec(v.Field(i))
			}
		case reflect.Slice:
			if v.Cap() == 0 {
				return
			}
			if sz := v.Type().Elem().Size(); sz > 0 {
				out[extent{v.Pointer(), v.Pointer() + sz*uintptr(v.Cap())}] = struct{}{}
			}
			switch v.Type().Elem().Kind() {
			case reflect.Pointer, reflect.Interface, reflect.Struct, reflect.Slice, reflect.Array, reflect.Map:
				for i := 0; i < v.Len(); i++ {
					rec(v.Index(i))
				}
			}
		case reflect.Array:
			for i := 0; i < v.Len(); i++ {
				rec(v.Index(i))
			}
		case reflect.Map:
			it := v.MapRange()
			for it.Next() {
				rec(it.Value())
			}
		}
	}
	rec(reflect.ValueOf(x))
}

// ---- scribble (fault: the caller rewrites what it was given) ----------------------------------

// spareWrites counts writes into the spare capacity of returned slices (reach probe).
var spareWrites int64

const scribbleStr = "☠scribbled☠"

// scribble overwrites, in place, everything reachable from x that a caller of the public
// API could overwrite: exported fields, slice elements and slice headers.
func scribble(x any) (writes int) {
	if x == nil {
		return 0
	}
	seen := map[visitKey]bool{}
	var rec func(v reflect.Value)
	rec = func(v reflect.Value) {
		switch v.Kind() {
		case reflect.Interface:
			if v.IsNil() {
				return
			}
			rec(v.Elem())
			if v.CanSet() {
				v.Set(reflect.Zero(v.Type()))
				writes++
			}
		case reflect.Pointer:
			if v.IsNil() {
				return
			}
			k := visitKey{v.Pointer(), v.Type()}
			if !seen[k] {
				seen[k] = true
				rec(v.Elem())
			}
			if v.CanSet() {
				v.Set(reflect.Zero(v.Type()))
				writes++
			}
		case reflect.Struct:
			t := v.Type()
			for i := 0; i < t.NumField(); i++ {
				if t.Field(i).IsExported() {
					rec(v.Field(i))
				}
			}
		case reflect.Slice:
			for i := 0; i < v.Len(); i++ {
				rec(v.Index(i))
			}
			// what `append(s, x)` within capacity does: write behind the end
			if c := v.Cap(); c > v.Len() && !v.IsNil() {
				ext := v.Slice3(0, v.Len(), c).Slice(0, c)
				zero := reflect.Zero(v.Type().Elem())
				for i := v.Len(); i < c && i < v.Len()+64; i++ {
					ext.Index(i).Set(zero)
					spareWrites++
					writes++
				}
			}
			if v.CanSet() {
				v.Set(reflect.Zero(v.Type()))
				writes++
			}
		case reflect.Array:
			for i := 0; i < v.Len(); i++ {
				rec(v.Index(i))
			}
		case reflect.String:
			if v.CanSet() {
				v.SetString(scribbleStr)
				writes++
			}
		case reflect.Bool:
			if v.CanSet() {
				v.SetBool(!v.Bool())
				writes++
			}
		case reflect.Int, reflect.Int8, reflect.Int16, reflect.Int32, reflect.Int64:
			if v.CanSet() {
				v.SetInt(v.Int() ^ 0x55)
				writes++
			}
		case reflect.Uint, reflect.Uint8, reflect.Uint16, reflect.Uint32, reflect.Uint64:
			if v.CanSet() {
				v.SetUint(v.Uint() ^ 0x55)
				writes++
			}
		}
	}
	v := reflect.ValueOf(x)
	rec(v)
	return writes
}
