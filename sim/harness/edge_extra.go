package main

// More built-in edge inputs, written after looking at which yield sites no process ever
// executed (evidence key yield_sites_never_executed_lines): every escape sequence, valid and
// invalid, in normal lexing and - after a syntax error - in recovery skipping; rarely used
// tokens; constructs of the grammar that neither the corpus nor its single-token damage
// reaches.
func init() {
	edgeInputs = append(edgeInputs,
		`SELECT '\a\b\f\n\r\t\v\\\?\"\'\`+"`"+`', "\x41\X42", b'\xff\101\377', 'é\U0001F600'`,
		`SELECT '\xZ1'`, `SELECT '\x4`, `SELECT b'ሴ'`, `SELECT '\u12'`, `SELECT '\U00110000'`, `SELECT '\ud800'`, `SELECT '\4'`, `SELECT '\18'`, `SELECT '\q'`, `SELECT '\U0000D8'`,
		`SELECT 1 1 '\xZ1' x`, `SELECT ) b'ሴ' , '\u12' , '\U00110000' , '\ud800' , '\18' , '\q' , '\x4' FROM t`, "SELECT 1 1 `` FROM t", "SELECT ``",
		`SELECT '''triple ' quote''', """a "" b""", r'''raw\n''', rb'\x', br"\\", R'x', B'y', Rb'z'`,
		`SELECT 1 1 '''unterminated`, `SELECT 1 1 /* unterminated`, `SELECT 1 1 0x`, `SELECT 1 1 1e+ 2`, `SELECT 1 1 $ x`,
		"SELECT b\"\\xa0\\xad\\x85\", \"a\u00a0b\u00ad\u0085\", `k\u00a0`, b'\xa0', '\\u00a0\\u00ad'", "CREATE TABLE `k\u00a0` (`c\u0085` INT64) PRIMARY KEY (`c\u0085`) x",
		`a += 1`, `a -= 1`, `x -> x + 1`, `SELECT a[SAFE_OFFSET(1)], b[SAFE_ORDINAL(2)], c[ORDINAL(1)] FROM t`,
		`FROM t ORDER BY a`, `FROM t LIMIT 1`, `FROM t |> WHERE a |> ORDER BY b |> LIMIT 1`, `WITH a AS (SELECT 1) WITH b AS (SELECT 2) SELECT 1`, `(WITH a AS (SELECT 1) SELECT 1) WITH`,
		`SELECT 1 FROM a LOOKUP JOIN b ON true`, `SELECT 1 FROM a HASH JOIN b USING (x)`, `SELECT 1 FROM a CROSS JOIN b, c JOIN@{FORCE_JOIN_ORDER=TRUE} d ON true`,
		`SELECT 1 FROM (a JOIN b ON true) TABLESAMPLE RESERVOIR (5 ROWS)`, `SELECT 1 FROM t TABLESAMPLE FOO (1 ROWS)`, `SELECT 1 FROM (SELECT 1) TABLESAMPLE BERNOULLI ('x' PERCENT)`, `SELECT 1 FROM UNNEST([1]) TABLESAMPLE BERNOULLI (@p PERCENT)`,
		`NEW T 1`, `NEW T {a: 1, b {c: 2}}`, `NEW T (1 AS a, 2)`, `SELECT 1 LIMIT CAST(1 AS STRING)`, `SELECT 1 LIMIT CAST(@p AS INT64) OFFSET CAST(2 AS FLOAT64)`, `SELECT 1 LIMIT 'a'`, `SELECT 1 LIMIT 1 OFFSET x`,
		`CREATE SEQUENCE s FOO`, `CREATE SEQUENCE s BIT_REVERSED_POSITIVE SKIP RANGE 1, 2 START COUNTER WITH 3`, `ALTER SEQUENCE s SET OPTIONS (a = true, b = 1, c = 'x', d = null)`,
		`GRANT INSERT(a, b), DELETE, UPDATE(c), SELECT(d) ON TABLE t, u TO ROLE r, s`, `REVOKE DELETE ON TABLE t FROM ROLE r`, `GRANT SELECT ON TABLE Singers TO admin`, `GRANT SELECT ON CHANGE STREAM cs TO ROLE`, `GRANT FOO ON TABLE t TO ROLE r`,
		`CREATE PROPERTY GRAPH g NODE TABLES (t FOO)`, `CREATE PROPERTY GRAPH g NODE TABLES (t NO PROPERTIES, u PROPERTIES ALL COLUMNS EXCEPT (a))`, `CREATE TABLE t (a FOO) PRIMARY KEY (a)`,
		`CREATE TABLE t (a INT64 NOT NULL OPTIONS (allow_commit_timestamp = maybe)) PRIMARY KEY (a)`,
		`CREATE DATABASE d OPTIONS (a = 1, b = 'two', c = true, d = null, e = [1])`, `CAST(1 AS FOO)`, `SAFE_CAST(x AS ARRAY<FOO>)`, `CREATE CHANGE STREAM s FOR t(a, b), u OPTIONS (retention_period = '1d')`,
		`ALTER TABLE t ALTER COLUMN c SET OPTIONS (x = 1)`, `CREATE INDEX i ON t (a) OPTIONS (locality_group = 'x')`, `ANALYZE x`, `CALL`, `CALL p(`, `BEGIN`,
	)
}
