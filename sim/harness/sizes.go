package main

// Size sweep: inputs in which ONE lexical element has a length on and around the boundaries
// where implementations change strategy (powers of two, Go's slice growth classes 896/1408):
// strings with and without escapes, bytes, raw and triple-quoted strings, quoted and plain
// identifiers, comments, digit runs, blank runs, list lengths, nesting depths, operator chains.
// Added after the held-out wave of seeded changes (DESIGN §6): two of them hid behind a length
// window (897..1024 bytes, >= 256 bytes) that no input of the pool fell into.

import (
	"fmt"
	"strings"
)

type sized struct {
	kind, text string
	entry      int
}

func sizeSweep() []sized {
	var lens []int
	for _, b := range []int{4, 8, 16, 32, 64, 128, 256, 512, 896, 1024, 1408, 2048, 4096, 8192, 16384, 32768, 65536} {
		lens = append(lens, b-1, b, b+1)
	}
	lens = append(lens, 0, 1, 2, 1000, 3000, 5000, 20000, 50000)
	rep := func(unit string, n int) string {
		if n <= 0 {
			return ""
		}
		return strings.Repeat(unit, n/len(unit)+1)[:n]
	}
	var out []sized
	for _, n := range lens {
		body := rep("abcdefghij", n)
		out = append(out,
			sized{"string", "SELECT '" + body + "', 'tail'", eParseQuery},
			sized{"string-escaped", `SELECT '\t` + rep("abcdefghij", n-1) + `', "t\n"`, eParseQuery},
			sized{"bytes", "SELECT b'" + body + "', b'tail'", eParseQuery},
			sized{"raw", `r"` + body + `"`, eParseExpr},
			sized{"quoted-ident", "SELECT `" + rep("qid_", n) + "` FROM `t`", eParseQuery},
		)
		if n <= 8193 {
			out = append(out,
				sized{"bytes-escaped", `SELECT b'\x41` + rep("abcdefghij", n-1) + "'", eParseQuery},
				sized{"ident", "SELECT i" + rep("dent_", n) + " FROM t", eParseQuery},
				sized{"comment", "SELECT /*" + rep("c ", n) + "*/ 1 -- " + rep("x", n%97) + "\n", eParseQuery},
				sized{"digits", "SELECT 1" + rep("0123456789", n), eParseQuery},
				sized{"blanks", "SELECT" + rep(" ", n) + "\t1", eParseQuery},
				sized{"triple", "SELECT '''" + rep("line\n", n) + "'''", eParseQuery},
			)
		}
		if n <= 1025 && n > 0 {
			var b strings.Builder
			b.WriteString("SELECT x IN (")
			for i := 0; i < n; i++ {
				if i > 0 {
					b.WriteString(", ")
				}
				fmt.Fprintf(&b, "%d", i)
			}
			b.WriteString(")")
			out = append(out, sized{"list", b.String(), eParseQuery})
		}
		if n <= 513 && n > 0 {
			out = append(out, sized{"depth", rep("(", n) + "1" + rep(")", n), eParseExpr})
		}
		if n <= 1025 && n > 1 {
			var b strings.Builder
			b.WriteString("a0")
			for i := 1; i < n; i++ {
				b.WriteString([]string{" + ", " AND ", " * ", " OR ", " - "}[i%5])
				fmt.Fprintf(&b, "a%d", i)
			}
			out = append(out, sized{"chain", b.String(), eParseExpr})
		}
	}
	return out
}
