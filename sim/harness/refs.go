package main

// The reference model of a pure API is a table f: (entry, path, input, variant) -> outcome
// with no state (DESIGN §2.6).  It is obtained from the tree under test itself, executed solo
// in fresh processes (`-mode ref`), and re-verified by every worker before and after its
// simulated runs (forward and reverse order: O2).

import (
	"encoding/binary"
	"fmt"
	"os"
	"sort"

	rt "github.com/cloudspannerecosystem/memefish/verifsimrt"
)

type refEntry struct {
	hash  uint64
	steps int64
	have  bool
	bad   bool // the call returned an error or panicked (what kind of history it makes)
}

const badBit = int64(1) << 62

type refTable struct {
	e []refEntry // indexed like pool.ops
	// siteOps[i]: how many operations of the reference passes executed yield site i at
	// least once (site rarity: what the preemption sweep prefers)
	siteOps []uint32
	// siteList[i]: up to 64 operations (indices into pool.ops) that execute site i;
	// rareSites: the sites executed by 2..64 operations (contention mode "rare-site")
	siteList  [][]int32
	rareSites []int32
	heavyOps  []int32
}

// per-process site statistics of the solo executions
var (
	siteOpCount []uint32
	siteEpoch   []uint32
	soloEpoch   uint32
	siteOpList  [][]int32
	soloOpIdx   int32 = -1
)

const siteListCap = 64

func (t *refTable) get(k opKey) (uint64, bool) {
	i, ok := pool.opIdx[k]
	if !ok || !t.e[i].have {
		return 0, false
	}
	return t.e[i].hash, true
}

func (t *refTable) steps(k opKey) (int64, bool) {
	i, ok := pool.opIdx[k]
	if !ok || !t.e[i].have {
		return 0, false
	}
	return t.e[i].steps, true
}

// heavy returns the 2 % most expensive operations (by solo yields, at most 3 M yields).
func (t *refTable) heavy() []int32 {
	if t.heavyOps != nil {
		return t.heavyOps
	}
	idx := make([]int32, 0, len(t.e))
	for i, e := range t.e {
		if e.have && e.steps <= 3_000_000 {
			idx = append(idx, int32(i))
		}
	}
	sort.Slice(idx, func(a, b int) bool {
		if t.e[idx[a]].steps != t.e[idx[b]].steps {
			return t.e[idx[a]].steps > t.e[idx[b]].steps
		}
		return idx[a] < idx[b]
	})
	n := len(idx) / 50
	if n < 8 {
		n = len(idx)
		if n > 8 {
			n = 8
		}
	}
	t.heavyOps = idx[:n]
	return t.heavyOps
}

// poolFingerprint identifies the pool (inputs, paths, op list).
func poolFingerprint() uint64 {
	h := newHashSink()
	for _, in := range pool.inputs {
		h.str(in.text)
	}
	for _, p := range pool.paths {
		h.str(p)
	}
	for _, k := range pool.ops {
		h.num(int64(k.Entry))
		h.num(int64(k.Variant))
		h.num(int64(k.Path))
		h.num(int64(k.Input))
	}
	return h.sum()
}

// soloOp executes one operation with nothing else going on and counts its yields.
func soloOp(k opKey, wantText bool) (opResult, int64) {
	if siteOpCount == nil {
		siteOpCount = make([]uint32, rt.NumSites+1)
		siteEpoch = make([]uint32, rt.NumSites+1)
		siteOpList = make([][]int32, rt.NumSites+1)
	}
	soloEpoch++
	c := &sim{countOnly: true, countSites: true}
	old := rt.Hook
	rt.Hook = c
	r := runOp(k, nil, wantText)
	rt.Hook = old
	soloInvariants = append(soloInvariants, drainInvariants()...)
	return r, c.step
}

// soloInvariants: in-operation invariants (O7) violated during solo executions.
var soloInvariants []string

// soloTrace executes one operation solo and returns the sequence of its yield sites.
func soloTrace(k opKey) []uint32 {
	var tr []uint32
	c := &sim{countOnly: true, trace: &tr}
	old := rt.Hook
	rt.Hook = c
	runOp(k, nil, false)
	rt.Hook = old
	return tr
}

// computeSlice evaluates ops idx with idx%n == i, in forward or reverse order.
func computeSlice(i, n int, reverse bool) map[int]refEntry {
	out := map[int]refEntry{}
	var idxs []int
	for j := range pool.ops {
		if j%n == i {
			idxs = append(idxs, j)
		}
	}
	if reverse {
		for a, b := 0, len(idxs)-1; a < b; a, b = a+1, b-1 {
			idxs[a], idxs[b] = idxs[b], idxs[a]
		}
	}
	for _, j := range idxs {
		soloOpIdx = int32(j)
		r, st := soloOp(pool.ops[j], false)
		soloOpIdx = -1
		out[j] = refEntry{hash: r.hash, steps: st, have: true, bad: r.sub != nil && (r.sub.err != nil || r.sub.pan != nil)}
	}
	return out
}

// part file: fingerprint, #ops, slice, of, reverse, then (index, hash, steps) records
const refHdr = 48

func writeRefPart(path string, part map[int]refEntry, slice, of int, reverse bool) error {
	buf := make([]byte, 0, refHdr+len(part)*20)
	buf = binary.LittleEndian.AppendUint64(buf, poolFingerprint())
	buf = binary.LittleEndian.AppendUint64(buf, uint64(len(pool.ops)))
	buf = binary.LittleEndian.AppendUint64(buf, uint64(slice))
	buf = binary.LittleEndian.AppendUint64(buf, uint64(of))
	rv := uint64(0)
	if reverse {
		rv = 1
	}
	buf = binary.LittleEndian.AppendUint64(buf, rv)
	buf = binary.LittleEndian.AppendUint64(buf, uint64(len(part)))
	for j := range pool.ops {
		if e, ok := part[j]; ok {
			buf = binary.LittleEndian.AppendUint32(buf, uint32(j))
			buf = binary.LittleEndian.AppendUint64(buf, e.hash)
			st := e.steps
			if e.bad {
				st |= badBit
			}
			buf = binary.LittleEndian.AppendUint64(buf, uint64(st))
		}
	}
	// appendix: site statistics
	buf = binary.LittleEndian.AppendUint32(buf, uint32(len(siteOpCount)))
	for _, c := range siteOpCount {
		buf = binary.LittleEndian.AppendUint32(buf, c)
	}
	// appendix 2: per site, up to 64 operations that execute it
	for i := range siteOpCount {
		var l []int32
		if i < len(siteOpList) {
			l = siteOpList[i]
		}
		buf = binary.LittleEndian.AppendUint32(buf, uint32(len(l)))
		for _, x := range l {
			buf = binary.LittleEndian.AppendUint32(buf, uint32(x))
		}
	}
	return os.WriteFile(path, buf, 0o644)
}

type refConflict struct {
	idx                      int
	a, b                     uint64
	sliceA, ofA, sliceB, ofB int
	revA, revB               bool
}

// loadRefs merges part files; conflicting entries are returned.
func loadRefs(paths []string) (*refTable, []refConflict, error) {
	t := &refTable{e: make([]refEntry, len(pool.ops))}
	type src struct {
		slice, of int
		rev       bool
	}
	from := make([]src, len(pool.ops))
	var conflicts []refConflict
	fp := poolFingerprint()
	for _, p := range paths {
		b, err := os.ReadFile(p)
		if err != nil {
			return nil, nil, err
		}
		if len(b) < refHdr || binary.LittleEndian.Uint64(b) != fp || binary.LittleEndian.Uint64(b[8:]) != uint64(len(pool.ops)) {
			return nil, nil, fmt.Errorf("%s: reference part belongs to a different pool", p)
		}
		me := src{int(binary.LittleEndian.Uint64(b[16:])), int(binary.LittleEndian.Uint64(b[24:])), binary.LittleEndian.Uint64(b[32:]) == 1}
		nrec := int(binary.LittleEndian.Uint64(b[40:]))
		if refHdr+nrec*20 > len(b) {
			return nil, nil, fmt.Errorf("%s: truncated", p)
		}
		if ap := refHdr + nrec*20; ap+4 <= len(b) {
			ns := int(binary.LittleEndian.Uint32(b[ap:]))
			if t.siteOps == nil {
				t.siteOps = make([]uint32, ns)
			}
			for i := 0; i < ns && i < len(t.siteOps) && ap+8+4*i <= len(b); i++ {
				t.siteOps[i] += binary.LittleEndian.Uint32(b[ap+4+4*i:])
			}
			if t.siteList == nil {
				t.siteList = make([][]int32, ns)
			}
			o := ap + 4 + 4*ns
			for i := 0; i < ns && o+4 <= len(b); i++ {
				n := int(binary.LittleEndian.Uint32(b[o:]))
				o += 4
				for k := 0; k < n && o+4 <= len(b); k++ {
					if i < len(t.siteList) && len(t.siteList[i]) < siteListCap && me.rev == false {
						t.siteList[i] = append(t.siteList[i], int32(binary.LittleEndian.Uint32(b[o:])))
					}
					o += 4
				}
			}
		}
		for o := refHdr; o+20 <= refHdr+nrec*20; o += 20 {
			j := int(binary.LittleEndian.Uint32(b[o:]))
			e := refEntry{hash: binary.LittleEndian.Uint64(b[o+4:]), steps: int64(binary.LittleEndian.Uint64(b[o+12:])), have: true}
			if e.steps&badBit != 0 {
				e.steps &^= badBit
				e.bad = true
			}
			if j >= len(t.e) {
				return nil, nil, fmt.Errorf("%s: bad index", p)
			}
			if t.e[j].have && t.e[j].hash != e.hash {
				conflicts = append(conflicts, refConflict{idx: j, a: t.e[j].hash, b: e.hash, sliceA: from[j].slice, ofA: from[j].of, revA: from[j].rev,
					sliceB: me.slice, ofB: me.of, revB: me.rev})
				continue
			}
			t.e[j] = e
			from[j] = me
		}
	}
	for i, l := range t.siteList {
		if len(l) >= 2 && i < len(t.siteOps) && t.siteOps[i] <= 2*siteListCap {
			t.rareSites = append(t.rareSites, int32(i))
			if i < len(rt.SiteClass) && rt.SiteClass[i]&16 != 0 {
				// rare AND in a function that mentions a package-level variable: the prime
				// suspects for shared state behind a threshold - eight times the weight
				for k := 0; k < 7; k++ {
					t.rareSites = append(t.rareSites, int32(i))
				}
			}
		}
	}
	return t, conflicts, nil
}
