package main

// Two more systematic input families, added after the third held-out wave (DESIGN §6):
//   - operator slips: one operator token of a corpus statement replaced by another operator
//     (what a mistyped statement looks like: `=` for `=>`, `>>` for `=`, ...);
//   - doubled lists: every element of a parenthesised comma list given twice
//     (duplicate option names, duplicate columns, duplicate arguments).

import "strings"

var slipOps = []string{"=", "=>", ">", ">=", ">>", "<", "<=", "<<", "<>", "!=", "+", "-", "||", "->", ":"}

func operatorSpans(s string) []word {
	var out []word
	for _, sp := range tokenSpans(s) {
		t := s[sp.lo:sp.hi]
		if len(t) == 1 && strings.ContainsAny(t, "=<>!+-|:") {
			// glue two-character operators
			if n := len(out); n > 0 && out[n-1].hi == sp.lo && out[n-1].hi-out[n-1].lo == 1 {
				out[n-1].hi = sp.hi
				continue
			}
			out = append(out, sp)
		}
	}
	return out
}

func slipAndDoubleSweep(r *rng, inputs []input, corpus []int, maxSlips int) []input {
	var out []input
	seen := map[string]bool{}
	add := func(src input, text, kind string) {
		if seen[text] || text == src.text {
			return
		}
		seen[text] = true
		out = append(out, input{text: text, origin: kind + ":" + src.origin, entry: src.entry, paths: src.paths, family: src.family, class: clsCorrupt})
	}
	slips := 0
	for _, ci := range corpus {
		src := inputs[ci]
		if len(src.text) > 600 {
			continue
		}
		// doubled lists: the first parenthesised list with a comma at depth 1
		if open := strings.IndexByte(src.text, '('); open >= 0 {
			depth, close, comma := 0, -1, false
			for i := open; i < len(src.text); i++ {
				switch src.text[i] {
				case '(':
					depth++
				case ')':
					depth--
					if depth == 0 {
						close = i
					}
				case ',':
					if depth == 1 {
						comma = true
					}
				case '\'', '"', '`':
					i = len(src.text) // keep it simple: no lists with quotes inside
				}
				if close >= 0 {
					break
				}
			}
			if close > open && comma {
				inner := src.text[open+1 : close]
				add(src, src.text[:close]+", "+strings.TrimSpace(inner)+src.text[close:], "doubled")
			}
		}
		// operator slips
		ops := operatorSpans(src.text)
		for k := 0; k < 2 && len(ops) > 0 && slips < maxSlips; k++ {
			sp := ops[r.intn(len(ops))]
			for j := 0; j < 3; j++ {
				add(src, src.text[:sp.lo]+slipOps[r.intn(len(slipOps))]+src.text[sp.hi:], "slip")
				slips++
			}
		}
	}
	return out
}

// Stray tails (added after the fourth held-out wave, when a re-run showed that s36 - a pooled
// lexer that keeps its "after a dot" flag - was only ever caught through corruptions the
// seeded sampling happened to contain): a complete statement followed by one token that
// cannot continue it, so that the parse stops in front of it.  n statements spread evenly
// over the corpus, each with every tail.
var strayTails = []string{".", " .", " ,", " )", " x.", " @p.", " ]"}

func strayTailSweep(inputs []input, corpus []int, n int) []input {
	var short []int
	for _, ci := range corpus {
		if t := strings.TrimSpace(inputs[ci].text); len(t) > 0 && len(t) <= 300 && !strings.HasSuffix(t, ";") {
			short = append(short, ci)
		}
	}
	if n > len(short) {
		n = len(short)
	}
	var out []input
	for k := 0; k < n; k++ {
		src := inputs[short[k*len(short)/n]]
		body := strings.TrimRight(src.text, " \t\r\n")
		for _, tail := range strayTails {
			out = append(out, input{text: body + tail, origin: "tail:" + src.origin, entry: src.entry, paths: src.paths, family: src.family, class: clsCorrupt})
		}
	}
	return out
}
