package main

// Minimisation of a failing case before it is reported (DESIGN §2.8): greedy delta
// debugging over runs, tasks, operations, flags, schedule segments and gc faults.  Every
// candidate is a well-defined execution (the literal scheduler skips infeasible segments),
// and it is kept iff it still fails the same oracle class.

import "time"

func clonePlan(p *Plan) *Plan {
	q := &Plan{Shared: append([]opKey(nil), p.Shared...)}
	for _, t := range p.Tasks {
		q.Tasks = append(q.Tasks, TaskPlan{Ops: append([]OpPlan(nil), t.Ops...)})
	}
	return q
}

func cloneSched(s *Schedule) *Schedule {
	if s == nil {
		return &Schedule{}
	}
	return &Schedule{Segs: append([]Segment(nil), s.Segs...), GC: append([]int64(nil), s.GC...)}
}

func cloneCases(cs []runCase) []runCase {
	out := make([]runCase, len(cs))
	for i, c := range cs {
		out[i] = runCase{plan: clonePlan(c.plan), sched: cloneSched(c.sched)}
	}
	return out
}

type minimiser struct {
	refs     *refTable
	cls      string
	budget   int
	execs    int
	deadline time.Time
	// check, if set, decides whether a candidate still fails (fresh-process minimisation);
	// otherwise candidates are executed in this process
	check func(cs []runCase) bool
}

func (m *minimiser) fails(cs []runCase) bool {
	if m.budget <= 0 {
		return false
	}
	if !m.deadline.IsZero() && time.Now().After(m.deadline) {
		m.budget = 0
		return false
	}
	m.budget--
	m.execs++
	if m.check != nil {
		return m.check(cs)
	}
	f, _, _ := runCases(cs, m.refs, m.cls, false)
	return f != nil
}

// minimise returns a smaller failing case list (or the input if nothing smaller fails).
func (m *minimiser) minimise(cs []runCase) []runCase {
	cur := cloneCases(cs)
	if !m.fails(cur) {
		return cs // not reproducible in-process: leave as is
	}
	try := func(cand []runCase) bool {
		if m.fails(cand) {
			cur = cand
			return true
		}
		return false
	}
	// 1. drop whole runs (keep at least one)
	for i := 0; i < len(cur) && len(cur) > 1; {
		cand := append(cloneCases(cur[:i]), cloneCases(cur[i+1:])...)
		if !try(cand) {
			i++
		}
	}
	for pass := 0; pass < 3; pass++ {
		before := m.size(cur)
		for ri := range cur {
			// 2. the empty schedule (tasks run one after the other)
			if len(cur[ri].sched.Segs) > 0 {
				cand := cloneCases(cur)
				cand[ri].sched.Segs = nil
				try(cand)
			}
			// 3. gc faults
			if len(cur[ri].sched.GC) > 0 {
				cand := cloneCases(cur)
				cand[ri].sched.GC = nil
				if !try(cand) {
					for g := 0; g < len(cur[ri].sched.GC); {
						cand := cloneCases(cur)
						cand[ri].sched.GC = append(cand[ri].sched.GC[:g:g], cand[ri].sched.GC[g+1:]...)
						if !try(cand) {
							g++
						}
					}
				}
			}
			// 4. drop tasks
			for t := 0; t < len(cur[ri].plan.Tasks) && len(cur[ri].plan.Tasks) > 1; {
				cand := cloneCases(cur)
				dropTask(&cand[ri], t)
				if !try(cand) {
					t++
				}
			}
			// 5. drop operations: ddmin per task (chunks of halving size)
			for t := 0; t < len(cur[ri].plan.Tasks); t++ {
				for chunk := (len(cur[ri].plan.Tasks[t].Ops) + 1) / 2; chunk >= 1; {
					removed := false
					for o := 0; o < len(cur[ri].plan.Tasks[t].Ops); {
						ops := cur[ri].plan.Tasks[t].Ops
						end := o + chunk
						if end > len(ops) {
							end = len(ops)
						}
						if end-o >= len(ops) && len(cur[ri].plan.Tasks) <= 1 {
							break // keep at least one operation
						}
						cand := cloneCases(cur)
						co := cand[ri].plan.Tasks[t].Ops
						cand[ri].plan.Tasks[t].Ops = append(co[:o:o], co[end:]...)
						if try(cand) {
							removed = true
						} else {
							o = end
						}
					}
					if chunk == 1 && !removed {
						break
					}
					if !removed || chunk > len(cur[ri].plan.Tasks[t].Ops) {
						chunk /= 2
					}
					if m.budget <= 0 {
						break
					}
				}
			}
			// 6. flags, shared subjects, variants
			for t := range cur[ri].plan.Tasks {
				for o := range cur[ri].plan.Tasks[t].Ops {
					op := cur[ri].plan.Tasks[t].Ops[o]
					if op.Twice {
						cand := cloneCases(cur)
						cand[ri].plan.Tasks[t].Ops[o].Twice = false
						try(cand)
					}
					if op.Scribble {
						cand := cloneCases(cur)
						cand[ri].plan.Tasks[t].Ops[o].Scribble = false
						try(cand)
					}
					if op.Fresh {
						cand := cloneCases(cur)
						cand[ri].plan.Tasks[t].Ops[o].Fresh = false
						try(cand)
					}
					if op.Shared >= 0 {
						cand := cloneCases(cur)
						cand[ri].plan.Tasks[t].Ops[o].Shared = -1
						try(cand)
					}
					if op.Key.Variant != vBase {
						k := op.Key
						k.Variant = vBase
						if _, ok := pool.opIdx[k]; ok {
							cand := cloneCases(cur)
							cand[ri].plan.Tasks[t].Ops[o].Key = k
							try(cand)
						}
					}
				}
			}
			if len(cur[ri].plan.Shared) > 0 {
				used := false
				for _, t := range cur[ri].plan.Tasks {
					for _, op := range t.Ops {
						if op.Shared >= 0 {
							used = true
						}
					}
				}
				if !used {
					cand := cloneCases(cur)
					cand[ri].plan.Shared = nil
					try(cand)
				}
			}
			// 7. schedule segments: ddmin (drop chunks of halving size), then merge neighbours
			for chunk := (len(cur[ri].sched.Segs) + 1) / 2; chunk >= 1; {
				removed := false
				for g := 0; g < len(cur[ri].sched.Segs); {
					end := g + chunk
					if end > len(cur[ri].sched.Segs) {
						end = len(cur[ri].sched.Segs)
					}
					cand := cloneCases(cur)
					sg := cand[ri].sched.Segs
					cand[ri].sched.Segs = append(sg[:g:g], sg[end:]...)
					if try(cand) {
						removed = true
					} else {
						g = end
					}
				}
				if chunk == 1 && !removed {
					break
				}
				if !removed || chunk > len(cur[ri].sched.Segs) {
					chunk /= 2
				}
				if m.budget <= 0 {
					break
				}
			}
			if merged := mergeSegs(cur[ri].sched.Segs); len(merged) < len(cur[ri].sched.Segs) {
				cand := cloneCases(cur)
				cand[ri].sched.Segs = merged
				try(cand)
			}
		}
		if m.size(cur) >= before || m.budget <= 0 {
			break
		}
	}
	return cur
}

func (m *minimiser) size(cs []runCase) int {
	n := 0
	for _, c := range cs {
		n += 10
		for _, t := range c.plan.Tasks {
			n += 5 + 3*len(t.Ops)
			for _, o := range t.Ops {
				if o.Twice || o.Scribble || o.Shared >= 0 || o.Key.Variant != vBase {
					n++
				}
			}
		}
		n += len(c.sched.Segs) + len(c.sched.GC)
	}
	return n
}

// mergeSegs joins neighbouring segments of the same task (behaviour preserving: a segment
// that hands over to its own task just continues).
func mergeSegs(segs []Segment) []Segment {
	var out []Segment
	for _, s := range segs {
		if n := len(out); n > 0 && out[n-1].Task == s.Task && out[n-1].Op < 0 && s.Op < 0 {
			out[n-1].N += s.N
			if out[n-1].N < 0 || out[n-1].N > 1<<60 {
				out[n-1].N = 1 << 60
			}
			continue
		}
		out = append(out, s)
	}
	return out
}

func dropTask(c *runCase, t int) {
	c.plan.Tasks = append(c.plan.Tasks[:t:t], c.plan.Tasks[t+1:]...)
	var segs []Segment
	for _, s := range c.sched.Segs {
		switch {
		case s.Task == t:
		case s.Task > t:
			segs = append(segs, Segment{Task: s.Task - 1, N: s.N, Op: s.Op})
		default:
			segs = append(segs, s)
		}
	}
	c.sched.Segs = segs
}
