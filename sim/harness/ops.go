package main

// Operations of the workload (DESIGN §2.3): every public entry point, followed by a
// "variant": what the caller then does with the result (unparse, positions, traversals with
// pruning / early exit / a panicking visitor / a re-entering visitor, quoting, error
// formatting).  The outcome of an operation is the canonical dump of everything observed.

import (
	"fmt"
	"iter"
	"reflect"
	"runtime"
	"strings"
	"sync"

	memefish "github.com/cloudspannerecosystem/memefish"
	"github.com/cloudspannerecosystem/memefish/ast"
	"github.com/cloudspannerecosystem/memefish/token"
)

// ---- entries ---------------------------------------------------------------------------------

const (
	eParseStatement = iota
	eParseStatements
	eParseQuery
	eParseExpr
	eParseType
	eParseDDL
	eParseDDLs
	eParseDML
	eParseDMLs
	nParseEntries
)

const (
	eSplit = 2*nParseEntries + iota
	eLex
	eQuote     // token.Quote*/IsKeyword on the words of the input: no lexer involved
	eHandBuilt // SQL()/Pos/End/Walk on nodes built by hand from the words of the input: no parse
	nEntries
)

var entryNames = func() []string {
	base := []string{"ParseStatement", "ParseStatements", "ParseQuery", "ParseExpr", "ParseType",
		"ParseDDL", "ParseDDLs", "ParseDML", "ParseDMLs"}
	var out []string
	out = append(out, base...)
	for _, b := range base {
		out = append(out, "Parser."+b)
	}
	out = append(out, "SplitRawStatements", "Lexer.NextToken", "token.Quote*", "hand-built-AST")
	return out
}()

func entryByName(n string) int {
	for i, e := range entryNames {
		if e == n {
			return i
		}
	}
	return -1
}

func nodesOf[T ast.Node](xs []T) []ast.Node {
	out := make([]ast.Node, 0, len(xs))
	for _, x := range xs {
		out = append(out, x)
	}
	return out
}

func one(n ast.Node) []ast.Node { return []ast.Node{n} }

// subject is what a parse call returned.
type subject struct {
	val   any        // the returned value as returned (node, slice of nodes, raw statements, tokens)
	err   error      // the returned error
	nodes []ast.Node // top-level nodes (possibly typed-nil interfaces)
	pan   any        // non-nil: the call panicked with this value
	// seqs[i]: ast.Preorder(nodes[i]), built once per subject: a caller that keeps the sequence
	// value; for a subject shared read-only between tasks the sequence values are shared too
	seqs  []iter.Seq[ast.Node]
	entry int
	path  string
	input string
}

type lexResult struct {
	Tokens []token.Token
	Err    error
}

// callEntry runs one public entry point.  A panic escaping the library is an outcome.
func callEntry(entry int, path, s string) (sub *subject) {
	sub = &subject{entry: entry, path: path, input: s}
	defer func() {
		if r := recover(); r != nil {
			if _, abandon := r.(runAbort); abandon {
				panic(r)
			}
			sub.pan = r
			sub.val, sub.err, sub.nodes = nil, nil, nil
		}
	}()
	explicit := entry >= nParseEntries && entry < 2*nParseEntries
	e := entry
	if explicit {
		e -= nParseEntries
	}
	var p *memefish.Parser
	if explicit {
		p = &memefish.Parser{Lexer: &memefish.Lexer{File: &token.File{FilePath: path, Buffer: s}}}
	}
	switch {
	case entry == eSplit:
		r, err := memefish.SplitRawStatements(path, s)
		sub.val, sub.err = r, err
	case entry == eQuote:
		ws, _, _ := scanWords(s)
		var out []string
		for i, w := range ws {
			if i >= 12 {
				break
			}
			t := s[w.lo:w.hi]
			out = append(out, token.QuoteSQLIdent(t), fmt.Sprint(token.IsKeyword(t)), token.QuoteSQLString(t), token.QuoteSQLBytes([]byte(t)))
		}
		out = append(out, token.QuoteSQLString(s), token.QuoteSQLIdent(s))
		sub.val = out
	case entry == eHandBuilt:
		ws, _, _ := scanWords(s)
		var ids []*ast.Ident
		for i, w := range ws {
			if i >= 4 {
				break
			}
			ids = append(ids, &ast.Ident{NamePos: token.Pos(w.lo), NameEnd: token.Pos(w.hi), Name: s[w.lo:w.hi]})
		}
		if len(ids) == 0 {
			ids = append(ids, &ast.Ident{Name: s})
		}
		path := &ast.Path{Idents: ids}
		lit := &ast.StringLiteral{ValuePos: 0, ValueEnd: token.Pos(len(s)), Value: s}
		call := &ast.CallExpr{Func: &ast.Path{Idents: ids[:1]}, Args: []ast.Arg{&ast.ExprArg{Expr: lit}, &ast.ExprArg{Expr: path}}}
		bin := &ast.BinaryExpr{Op: ast.OpAdd, Left: path, Right: call}
		sub.nodes = []ast.Node{ids[0], path, lit, bin}
		sub.val = sub.nodes
	case entry == eLex:
		lex := &memefish.Lexer{File: &token.File{FilePath: path, Buffer: s}}
		res := &lexResult{}
		eofs := 0
		for eofs < 3 && len(res.Tokens) < len(s)+8 {
			if err := lex.NextToken(); err != nil {
				res.Err = err
				break
			}
			res.Tokens = append(res.Tokens, lex.Token)
			if lex.Token.Kind == token.TokenEOF {
				eofs++
			}
		}
		sub.val, sub.err = res, res.Err
	case e == eParseStatement:
		var n ast.Statement
		if explicit {
			n, sub.err = p.ParseStatement()
		} else {
			n, sub.err = memefish.ParseStatement(path, s)
		}
		sub.val, sub.nodes = n, one(n)
	case e == eParseStatements:
		var n []ast.Statement
		if explicit {
			n, sub.err = p.ParseStatements()
		} else {
			n, sub.err = memefish.ParseStatements(path, s)
		}
		sub.val, sub.nodes = n, nodesOf(n)
	case e == eParseQuery:
		var n *ast.QueryStatement
		if explicit {
			n, sub.err = p.ParseQuery()
		} else {
			n, sub.err = memefish.ParseQuery(path, s)
		}
		sub.val, sub.nodes = n, one(n)
	case e == eParseExpr:
		var n ast.Expr
		if explicit {
			n, sub.err = p.ParseExpr()
		} else {
			n, sub.err = memefish.ParseExpr(path, s)
		}
		sub.val, sub.nodes = n, one(n)
	case e == eParseType:
		var n ast.Type
		if explicit {
			n, sub.err = p.ParseType()
		} else {
			n, sub.err = memefish.ParseType(path, s)
		}
		sub.val, sub.nodes = n, one(n)
	case e == eParseDDL:
		var n ast.DDL
		if explicit {
			n, sub.err = p.ParseDDL()
		} else {
			n, sub.err = memefish.ParseDDL(path, s)
		}
		sub.val, sub.nodes = n, one(n)
	case e == eParseDDLs:
		var n []ast.DDL
		if explicit {
			n, sub.err = p.ParseDDLs()
		} else {
			n, sub.err = memefish.ParseDDLs(path, s)
		}
		sub.val, sub.nodes = n, nodesOf(n)
	case e == eParseDML:
		var n ast.DML
		if explicit {
			n, sub.err = p.ParseDML()
		} else {
			n, sub.err = memefish.ParseDML(path, s)
		}
		sub.val, sub.nodes = n, one(n)
	case e == eParseDMLs:
		var n []ast.DML
		if explicit {
			n, sub.err = p.ParseDMLs()
		} else {
			n, sub.err = memefish.ParseDMLs(path, s)
		}
		sub.val, sub.nodes = n, nodesOf(n)
	default:
		panic(fmt.Sprintf("harness: unknown entry %d", entry))
	}
	return sub
}

// initSeqs builds the Preorder sequence values of the top-level nodes.
func (sub *subject) initSeqs() {
	if sub.seqs != nil || sub.pan != nil {
		return
	}
	sub.seqs = make([]iter.Seq[ast.Node], len(sub.nodes))
	for i, n := range sub.nodes {
		if !isNilNode(n) {
			func() {
				defer func() { recover() }()
				sub.seqs[i] = ast.Preorder(n)
			}()
		}
	}
}

// isNilNode reports whether n is nil or a typed nil pointer.
func isNilNode(n ast.Node) bool {
	if n == nil {
		return true
	}
	return isNilIface(n)
}

// ---- outcome writing ------------------------------------------------------------------------

func dumpPanic(s sink, r any) {
	s.tag("PANIC")
	s.push()
	switch x := r.(type) {
	case *memefish.Error:
		s.tag("*memefish.Error")
		dumpAny(s, x)
	case runtime.Error:
		s.tag("runtime.Error")
		s.str(x.Error())
	case error:
		s.tag(fmt.Sprintf("%T", x))
		s.str(x.Error())
	case string:
		s.tag("string")
		s.str(x)
	case visitorAbort:
		s.tag("visitorAbort")
		s.num(int64(x))
	default:
		s.tag(fmt.Sprintf("%T", r))
		dumpAny(s, r)
	}
	s.pop()
}

// guard runs f and writes a PANIC record if it panics.
func guard(s sink, what string, f func()) {
	defer func() {
		if r := recover(); r != nil {
			if _, abandon := r.(runAbort); abandon {
				panic(r)
			}
			s.tag("in " + what)
			dumpPanic(s, r)
		}
	}()
	f()
}

func dumpErrStrings(s sink, err error) {
	if err == nil {
		s.tag("err=nil")
		return
	}
	s.tag("err")
	s.push()
	guard(s, "Error()", func() { s.str(err.Error()) })
	guard(s, "MultiError(nil).Error()", func() { s.str(memefish.MultiError(nil).Error()) })
	switch e := err.(type) {
	case memefish.MultiError:
		guard(s, "FullError()", func() { s.str(e.FullError()) })
		guard(s, "String()", func() { s.str(e.String()) })
		for _, x := range e {
			if x == nil {
				s.tag("<nil *Error>")
				continue
			}
			guard(s, "Error.Error()", func() { s.str(x.Error()) })
			guard(s, "Error.String()", func() { s.str(x.String()) })
			guard(s, "Error.FullError()", func() { s.str(x.FullError()) })
			if x.Position != nil {
				guard(s, "Position.String()", func() { s.str(x.Position.String()) })
			}
		}
	case *memefish.Error:
		guard(s, "FullError()", func() { s.str(e.FullError()) })
		if e.Position != nil {
			guard(s, "Position.String()", func() { s.str(e.Position.String()) })
		}
	}
	s.pop()
}

// writeBase writes variant 0: the returned values, error texts, and SQL/Pos/End of the
// top-level nodes.
func writeBase(s sink, sub *subject) {
	s.tag(entryNames[sub.entry])
	if sub.pan != nil {
		dumpPanic(s, sub.pan)
		return
	}
	s.tag("value")
	s.push()
	dumpAny(s, sub.val)
	s.pop()
	s.tag("error")
	s.push()
	dumpAny(s, sub.err)
	s.pop()
	dumpErrStrings(s, sub.err)
	for i, n := range sub.nodes {
		s.tag("top")
		s.num(int64(i))
		if isNilNode(n) {
			s.tag("<nil node>")
			continue
		}
		guard(s, "SQL()", func() { s.str(n.SQL()) })
		guard(s, "Pos()", func() { s.num(int64(n.Pos())) })
		guard(s, "End()", func() { s.num(int64(n.End())) })
	}
}

// ---- variants --------------------------------------------------------------------------------

const (
	vBase = iota
	vPosEndAll
	vWalkPaths
	vInspectMaskA
	vInspectMaskB
	vPreorderBreak1
	vPreorderBreak2
	vAbort1
	vAbort2
	vReenter
	vRoundTrip
	vQuoteAndPosition
	vSubSQL
	vSplitThenParse
	vEditSQL // the caller edits its tree, then unparses / traverses it, and compares with a deep copy
	nVariants
)

var variantNames = []string{"base", "pos-end-all", "walk-paths", "inspect-mask-a", "inspect-mask-b",
	"preorder-break-1/4", "preorder-break-1/2", "abort-visitor-1/3", "abort-visitor-2/3", "reenter-visitor",
	"round-trip", "quote+position", "sub-sql", "split-then-parse", "edit-then-sql"}

// variantApplies reports whether variant v means anything for entry e.
func variantApplies(e, v int) bool {
	switch e {
	case eSplit:
		return v == vBase || v == vSplitThenParse
	case eLex, eQuote:
		return v == vBase
	case eHandBuilt:
		return v != vSplitThenParse && v != vRoundTrip && v != vQuoteAndPosition
	}
	return v != vSplitThenParse
}

type visitorAbort int

func countNodes(nodes []ast.Node) (n int) {
	for _, top := range nodes {
		if isNilNode(top) {
			continue
		}
		func() {
			defer func() {
				if r := recover(); r != nil {
					if _, abandon := r.(runAbort); abandon {
						panic(r)
					}
				}
			}()
			ast.Inspect(top, func(ast.Node) bool { n++; return true })
		}()
	}
	return n
}

// pathVisitor records the full visitor protocol.
type pathVisitor struct {
	s    sink
	path string
	cnt  *int
	kept *[]keptList // the node lists handed to VisitMany, kept by the visitor as they are
}

type keptList struct {
	path  string
	nodes []ast.Node
}

func (v *pathVisitor) Visit(n ast.Node) ast.Visitor {
	*v.cnt++
	v.s.tag(fmt.Sprintf("visit %s %T", v.path, n))
	return v
}
func (v *pathVisitor) VisitMany(ns []ast.Node) ast.Visitor {
	v.s.tag(fmt.Sprintf("many %s %d", v.path, len(ns)))
	if v.kept != nil {
		*v.kept = append(*v.kept, keptList{v.path, ns})
	}
	return v
}
func (v *pathVisitor) Field(name string) ast.Visitor {
	return &pathVisitor{s: v.s, path: v.path + "." + name, cnt: v.cnt, kept: v.kept}
}
func (v *pathVisitor) Index(i int) ast.Visitor {
	return &pathVisitor{s: v.s, path: fmt.Sprintf("%s[%d]", v.path, i), cnt: v.cnt, kept: v.kept}
}

// dumpKept writes the node lists a visitor kept, as they look after the traversal.
func dumpKept(s sink, kept []keptList) {
	for _, k := range kept {
		s.tag("kept " + k.path)
		s.num(int64(len(k.nodes)))
		for _, n := range k.nodes {
			if isNilNode(n) {
				s.tag("<nil>")
				continue
			}
			s.tag(fmt.Sprintf("%T", n))
			guard(s, "Pos()", func() { s.num(int64(n.Pos())) })
		}
	}
}

func maskBit(seed uint64, i int) bool {
	return mix64(seed+uint64(i)*0x9e3779b97f4a7c15)%4 == 0
}

// writeVariant performs what the caller does after the parse and writes what it observes.
// lib: re-entrant calls go through callEntry as well.
func writeVariant(s sink, sub *subject, v int) {
	s.tag("variant " + variantNames[v])
	if sub.pan != nil {
		return
	}
	if v == vSplitThenParse {
		raws, _ := sub.val.([]*memefish.RawStatement)
		for i, r := range raws {
			s.tag("raw")
			s.num(int64(i))
			if r == nil {
				s.tag("<nil>")
				continue
			}
			inner := callEntry(eParseStatement, sub.path, r.Statement)
			writeBase(s, inner)
		}
		return
	}
	nodes := sub.nodes
	total := countNodes(nodes)
	s.num(int64(total))
	each := func(f func(i int, top ast.Node)) {
		for i, top := range nodes {
			if isNilNode(top) {
				continue
			}
			f(i, top)
		}
	}
	switch v {
	case vBase:
	case vPosEndAll:
		each(func(i int, top ast.Node) {
			guard(s, "Inspect", func() {
				ast.Inspect(top, func(n ast.Node) bool {
					s.tag(fmt.Sprintf("%T", n))
					guard(s, "Pos()", func() { s.num(int64(n.Pos())) })
					guard(s, "End()", func() { s.num(int64(n.End())) })
					return true
				})
			})
		})
	case vWalkPaths:
		cnt := 0
		var kept []keptList
		each(func(i int, top ast.Node) {
			guard(s, "Walk", func() { ast.Walk(top, &pathVisitor{s: s, path: fmt.Sprintf("$%d", i), cnt: &cnt, kept: &kept}) })
		})
		if len(nodes) > 1 {
			guard(s, "WalkMany", func() { ast.WalkMany(nodes, &pathVisitor{s: s, path: "$", cnt: &cnt, kept: &kept}) })
		}
		// the visitor kept the lists it was given: they must still be what it was given
		dumpKept(s, kept)
	case vInspectMaskA, vInspectMaskB:
		seed := uint64(0xa5a5)
		if v == vInspectMaskB {
			seed = 0x5a5a17
		}
		idx := 0
		each(func(i int, top ast.Node) {
			guard(s, "Inspect", func() {
				ast.Inspect(top, func(n ast.Node) bool {
					idx++
					s.tag(fmt.Sprintf("%T", n))
					s.num(int64(n.Pos()))
					return !maskBit(seed, idx) // false: prune the subtree (early-exit fault)
				})
			})
		})
	case vPreorderBreak1, vPreorderBreak2:
		k := total / 4
		if v == vPreorderBreak2 {
			k = total / 2
		}
		idx := 0
		each(func(i int, top ast.Node) {
			guard(s, "Preorder", func() {
				for n := range ast.Preorder(top) {
					idx++
					s.tag(fmt.Sprintf("%T", n))
					if idx > k {
						break
					}
				}
			})
		})
		// a caller that keeps the sequence value and ranges over it again: sequentially after a
		// break, and nested inside its own loop with an inner break
		each(func(i int, top ast.Node) {
			var seq iter.Seq[ast.Node]
			if i < len(sub.seqs) {
				seq = sub.seqs[i] // kept (and, for a shared subject, shared) sequence value
			}
			if seq == nil {
				seq = ast.Preorder(top)
			}
			c1, c2, c3, inner := 0, 0, 0, 0
			guard(s, "Preorder(reused)", func() {
				for range seq {
					c1++
					if c1 > k {
						break
					}
				}
				for range seq {
					c2++
				}
				for range seq {
					c3++
					if c3 == 2 {
						for range seq {
							inner++
							if inner >= 2 {
								break
							}
						}
					}
				}
			})
			s.num(int64(c1))
			s.num(int64(c2))
			s.num(int64(c3))
			s.num(int64(inner))
		})
		if len(nodes) > 1 {
			idx = 0
			guard(s, "PreorderMany", func() {
				for n := range ast.PreorderMany(nodes) {
					idx++
					s.tag(fmt.Sprintf("%T", n))
					if idx > k {
						break
					}
				}
			})
		}
	case vAbort1, vAbort2:
		k := total / 3
		if v == vAbort2 {
			k = 2 * total / 3
		}
		idx := 0
		each(func(i int, top ast.Node) {
			guard(s, "Inspect(aborting visitor)", func() {
				ast.Inspect(top, func(n ast.Node) bool {
					idx++
					s.tag(fmt.Sprintf("%T", n))
					if idx > k {
						panic(visitorAbort(idx)) // abort fault: the call ends abnormally
					}
					return true
				})
			})
		})
		// the library must be unaffected: traverse again and unparse
		each(func(i int, top ast.Node) {
			c := 0
			guard(s, "Inspect(after abort)", func() { ast.Inspect(top, func(ast.Node) bool { c++; return true }) })
			s.num(int64(c))
			guard(s, "SQL(after abort)", func() { s.str(top.SQL()) })
		})
	case vReenter:
		idx := 0
		each(func(i int, top ast.Node) {
			guard(s, "Inspect(re-entering visitor)", func() {
				ast.Inspect(top, func(n ast.Node) bool {
					idx++
					switch idx % 5 {
					case 0:
						guard(s, "inner SQL()", func() { s.str(n.SQL()) })
					case 1:
						if idx < 40 {
							c := 0
							guard(s, "inner Inspect", func() { ast.Inspect(n, func(ast.Node) bool { c++; return true }) })
							s.num(int64(c))
						}
					case 2:
						if idx < 12 {
							var text string
							guard(s, "inner SQL()", func() { text = n.SQL() })
							if _, ok := n.(ast.Expr); ok {
								writeBase(s, callEntry(eParseExpr, sub.path, text))
							} else {
								writeBase(s, callEntry(eParseStatement, sub.path, text))
							}
						}
					}
					return true
				})
			})
		})
	case vRoundTrip:
		each(func(i int, top ast.Node) {
			var t1, t2 string
			guard(s, "SQL()#1", func() { t1 = top.SQL() })
			guard(s, "SQL()#2", func() { t2 = top.SQL() })
			s.str(t1)
			s.str(t2)
			if cp, ok := deepCopy(top).(ast.Node); ok && t1 != "" {
				t3 := ""
				func() {
					defer func() {
						if r := recover(); r != nil {
							if _, abandon := r.(runAbort); abandon {
								panic(r)
							}
							t3 = t1
						}
					}()
					t3 = cp.SQL()
				}()
				if t3 != t1 {
					noteInvariant(fmt.Sprintf("SQL() of a tree and of a deep copy of it differ: %q vs %q", clip(t1), clip(t3)))
				}
			}
			e := sub.entry
			if e >= nParseEntries && e < 2*nParseEntries {
				e -= nParseEntries
			}
			switch e { // list entries: re-parse each element with the singular entry
			case eParseStatements:
				e = eParseStatement
			case eParseDDLs:
				e = eParseDDL
			case eParseDMLs:
				e = eParseDML
			}
			writeBase(s, callEntry(e, sub.path, t1))
		})
	case vQuoteAndPosition:
		f := &token.File{FilePath: sub.path, Buffer: sub.input}
		idx := 0
		each(func(i int, top ast.Node) {
			guard(s, "Inspect", func() {
				ast.Inspect(top, func(n ast.Node) bool {
					idx++
					switch x := n.(type) {
					case *ast.StringLiteral:
						guard(s, "QuoteSQLString", func() { s.str(token.QuoteSQLString(x.Value)) })
					case *ast.BytesLiteral:
						guard(s, "QuoteSQLBytes", func() { s.str(token.QuoteSQLBytes(x.Value)) })
					case *ast.Ident:
						guard(s, "QuoteSQLIdent", func() { s.str(token.QuoteSQLIdent(x.Name)) })
					case *ast.Options:
						// the typed accessors of OPTIONS(...) lists, for every name present and one absent
						names := []string{"no_such_option"}
						for _, r := range x.Records {
							if r != nil && r.Name != nil {
								names = append(names, r.Name.Name)
							}
						}
						for _, nm := range names {
							guard(s, "Options.Field", func() {
								e, ok := x.Field(nm)
								s.tag(fmt.Sprintf("%T %v", e, ok))
							})
							guard(s, "Options.BoolField", func() { v, err := x.BoolField(nm); dumpAny(s, v); dumpAny(s, fmt.Sprint(err)) })
							guard(s, "Options.IntegerField", func() { v, err := x.IntegerField(nm); dumpAny(s, v); dumpAny(s, fmt.Sprint(err)) })
							guard(s, "Options.StringField", func() { v, err := x.StringField(nm); dumpAny(s, v); dumpAny(s, fmt.Sprint(err)) })
						}
					}
					if idx%3 == 0 {
						guard(s, "File.Position", func() {
							p, e := n.Pos(), n.End()
							if int(p) >= 0 && int(e) <= len(sub.input) && p <= e {
								dumpAny(s, f.Position(p, e))
							}
						})
					}
					return true
				})
			})
		})
	case vEditSQL:
		// a caller that rewrites the tree it was given and unparses it: rename identifiers, swap
		// and duplicate list elements, graft a subtree of another parse; then SQL(), Pos/End and
		// a traversal.  O7: a deep copy of the edited tree (same content, fresh nodes) must
		// unparse to the same text - SQL() depends on its argument only, not on node identity.
		graft := callEntry(eParseExpr, sub.path, "grafted_fn(a.b, 'lit') + 1")
		each(func(i int, top ast.Node) {
			guard(s, "edit", func() { editTree(top, graft) })
			var t1, t2 string
			p1, p2 := "", ""
			guard(s, "SQL(edited)", func() { t1 = top.SQL() })
			guard(s, "Pos/End(edited)", func() { p1 = fmt.Sprint(top.Pos(), top.End()) })
			s.str(t1)
			s.str(p1)
			c := 0
			guard(s, "Inspect(edited)", func() { ast.Inspect(top, func(ast.Node) bool { c++; return true }) })
			s.num(int64(c))
			cp, ok := deepCopy(top).(ast.Node)
			if !ok {
				return
			}
			panicked := false
			func() {
				defer func() {
					if r := recover(); r != nil {
						if _, abandon := r.(runAbort); abandon {
							panic(r)
						}
						panicked = true
					}
				}()
				t2 = cp.SQL()
				p2 = fmt.Sprint(cp.Pos(), cp.End())
			}()
			if !panicked && (t1 != t2 || p1 != p2) && t1 != "" {
				noteInvariant(fmt.Sprintf("SQL()/Pos()/End() of two structurally identical trees differ: edited tree %q %s, deep copy of it %q %s", clip(t1), p1, clip(t2), p2))
			}
		})
		// an edit that leaves a hole (a node was moved elsewhere): SQL() of such a tree panics
		// part-way through; the caller recovers, and everything after must be unaffected
		each(func(i int, top ast.Node) {
			guard(s, "punch hole", func() { punchHole(top) })
			guard(s, "SQL(tree with a hole)", func() { s.str(top.SQL()) })
		})
		if len(graft.nodes) == 1 && !isNilNode(graft.nodes[0]) {
			guard(s, "SQL(after the hole)", func() { s.str(graft.nodes[0].SQL()) })
			writeBase(s, callEntry(eParseQuery, sub.path, "SELECT a, b, c FROM t WHERE a IN (1, 2, 3) ORDER BY a, b"))
		}
	case vSubSQL:
		each(func(i int, top ast.Node) {
			guard(s, "Inspect", func() {
				ast.Inspect(top, func(n ast.Node) bool {
					guard(s, "sub SQL()", func() { s.str(n.SQL()) })
					return true
				})
			})
		})
	}
}

// ---- tree editing and copying (variant edit-then-sql, oracle O7) ------------------------------------

var (
	invMu         sync.Mutex
	invariantFail []string
)

// noteInvariant records a violated in-operation invariant (drained by the task after the call).
func noteInvariant(msg string) {
	invMu.Lock()
	if len(invariantFail) < 16 {
		invariantFail = append(invariantFail, msg)
	}
	invMu.Unlock()
}

func drainInvariants() []string {
	invMu.Lock()
	out := invariantFail
	invariantFail = nil
	invMu.Unlock()
	return out
}

func clip(s string) string {
	if len(s) > 120 {
		return s[:120] + "..."
	}
	return s
}

var nodeType = reflect.TypeOf((*ast.Node)(nil)).Elem()

// editTree rewrites a parsed tree in place the way an AST-rewriting caller does.
func editTree(top ast.Node, graft *subject) {
	seen := map[uintptr]bool{}
	edits := 0
	var rec func(v reflect.Value, depth int)
	rec = func(v reflect.Value, depth int) {
		if depth > 200 || edits > 400 {
			return
		}
		switch v.Kind() {
		case reflect.Interface:
			if !v.IsNil() {
				rec(v.Elem(), depth+1)
			}
		case reflect.Pointer:
			if v.IsNil() || seen[v.Pointer()] {
				return
			}
			seen[v.Pointer()] = true
			if id, ok := v.Interface().(*ast.Ident); ok {
				id.Name += "_x"
				edits++
				return
			}
			rec(v.Elem(), depth+1)
		case reflect.Struct:
			for i := 0; i < v.NumField(); i++ {
				if v.Type().Field(i).IsExported() {
					rec(v.Field(i), depth+1)
				}
			}
		case reflect.Slice:
			et := v.Type().Elem()
			isNodes := et.Implements(nodeType) || et.Kind() == reflect.Pointer && et.Implements(nodeType)
			for i := 0; i < v.Len(); i++ {
				rec(v.Index(i), depth+1)
			}
			if isNodes && v.Len() >= 2 && v.CanSet() && edits < 400 {
				// swap the first two elements and append (a pointer copy of) the first
				a, b := reflect.New(et).Elem(), reflect.New(et).Elem()
				a.Set(v.Index(0))
				b.Set(v.Index(1))
				v.Index(0).Set(b)
				v.Index(1).Set(a)
				v.Set(reflect.Append(v, v.Index(0)))
				edits++
			}
		}
	}
	rec(reflect.ValueOf(top), 0)
	// graft: put an expression of another parse where the first BinaryExpr has its right operand
	if graft != nil && len(graft.nodes) == 1 && !isNilNode(graft.nodes[0]) {
		if g, ok := graft.nodes[0].(ast.Expr); ok {
			done := false
			ast.Inspect(top, func(n ast.Node) bool {
				if b, ok := n.(*ast.BinaryExpr); ok && !done {
					b.Right = g
					done = true
				}
				return !done
			})
		}
	}
}

// punchHole sets the last element of the first node list with two or more elements to nil.
func punchHole(top ast.Node) {
	done := false
	seen := map[uintptr]bool{}
	var rec func(v reflect.Value, depth int)
	rec = func(v reflect.Value, depth int) {
		if done || depth > 200 {
			return
		}
		switch v.Kind() {
		case reflect.Interface:
			if !v.IsNil() {
				rec(v.Elem(), depth+1)
			}
		case reflect.Pointer:
			if v.IsNil() || seen[v.Pointer()] {
				return
			}
			seen[v.Pointer()] = true
			rec(v.Elem(), depth+1)
		case reflect.Struct:
			for i := 0; i < v.NumField() && !done; i++ {
				if v.Type().Field(i).IsExported() {
					rec(v.Field(i), depth+1)
				}
			}
		case reflect.Slice:
			et := v.Type().Elem()
			if (et.Kind() == reflect.Pointer || et.Kind() == reflect.Interface) && et.Implements(nodeType) && v.Len() >= 2 {
				v.Index(v.Len() - 1).Set(reflect.Zero(et))
				done = true
				return
			}
			for i := 0; i < v.Len() && !done; i++ {
				rec(v.Index(i), depth+1)
			}
		}
	}
	rec(reflect.ValueOf(top), 0)
}

// deepCopy returns a structurally identical value made of fresh pointers and slices
// (exported fields; aliasing inside the value is preserved).
func deepCopy(x any) any {
	if x == nil {
		return nil
	}
	memo := map[visitKey]reflect.Value{}
	var cp func(v reflect.Value) reflect.Value
	cp = func(v reflect.Value) reflect.Value {
		switch v.Kind() {
		case reflect.Interface:
			if v.IsNil() {
				return v
			}
			out := reflect.New(v.Type()).Elem()
			out.Set(cp(v.Elem()))
			return out
		case reflect.Pointer:
			if v.IsNil() {
				return v
			}
			k := visitKey{v.Pointer(), v.Type()}
			if m, ok := memo[k]; ok {
				return m
			}
			out := reflect.New(v.Type().Elem())
			memo[k] = out
			out.Elem().Set(cp(v.Elem()))
			return out
		case reflect.Struct:
			out := reflect.New(v.Type()).Elem()
			out.Set(v) // unexported fields by value
			for i := 0; i < v.NumField(); i++ {
				if v.Type().Field(i).IsExported() {
					out.Field(i).Set(cp(v.Field(i)))
				}
			}
			return out
		case reflect.Slice:
			if v.IsNil() {
				return v
			}
			out := reflect.MakeSlice(v.Type(), v.Len(), v.Len())
			for i := 0; i < v.Len(); i++ {
				out.Index(i).Set(cp(v.Index(i)))
			}
			return out
		}
		return v
	}
	return cp(reflect.ValueOf(x)).Interface()
}

// ---- one operation ------------------------------------------------------------------------------

// opKey identifies an operation: the arguments of the pure reference function f.
type opKey struct {
	Entry   uint8
	Variant uint8
	Path    uint8  // index into paths
	Input   uint32 // index into the pool
}

func (k opKey) String() string {
	txt := pool.inputs[k.Input].text
	h := newHashSink()
	h.str(txt)
	return fmt.Sprintf("%s/%s path=%q input=%08x(%dB)", entryNames[k.Entry], variantNames[k.Variant], pathOf(k), uint32(h.sum()), len(txt))
}

// opResult is what executing an operation yields.
type opResult struct {
	hash uint64
	sub  *subject // retained returned values
	text string   // only when wantText
}

// runOp executes op k.  shared != nil: skip the parse and use that subject (read-only
// sharing scenario).
func runOp(k opKey, shared *subject, wantText bool) opResult {
	return runOpX(k, shared, wantText, false)
}

// runOpX: fresh = hand the library freshly allocated copies of the path and the text (a
// caller that builds its input for every call: the memory can be collected and its address
// reused afterwards, which a cache keyed by string identity would confuse).
func runOpX(k opKey, shared *subject, wantText, fresh bool) opResult {
	h := newHashSink()
	var s sink = h
	var ts *textSink
	if wantText {
		ts = &textSink{limit: 1 << 20}
		s = teeSink{h, ts}
	}
	if k.Variant == vEditSQL {
		shared = nil // this caller rewrites the tree: never on a tree that others only read
	}
	sub := shared
	if sub == nil {
		path, text := pathOf(k), pool.inputs[k.Input].text
		if fresh {
			path, text = string(append([]byte(nil), path...)), string(append([]byte(nil), text...))
		}
		sub = callEntry(int(k.Entry), path, text)
	}
	writeBase(s, sub)
	if k.Variant != vBase {
		writeVariant(s, sub, int(k.Variant))
	}
	r := opResult{hash: h.sum(), sub: sub}
	if ts != nil {
		r.text = ts.b.String()
	}
	return r
}

func firstDiff(a, b string) string {
	la, lb := strings.Split(a, "\n"), strings.Split(b, "\n")
	for i := 0; i < len(la) && i < len(lb); i++ {
		if la[i] != lb[i] {
			lo := i - 3
			if lo < 0 {
				lo = 0
			}
			var sb strings.Builder
			fmt.Fprintf(&sb, "first difference at dump line %d\n", i+1)
			for j := lo; j < i; j++ {
				fmt.Fprintf(&sb, "   %s\n", la[j])
			}
			fmt.Fprintf(&sb, " - %s\n + %s\n", la[i], lb[i])
			return sb.String()
		}
	}
	if len(la) != len(lb) {
		return fmt.Sprintf("dumps differ in length: %d vs %d lines", len(la), len(lb))
	}
	return "dumps identical"
}
