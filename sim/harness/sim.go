package main

// The serial-mode simulator (DESIGN §2.4): tasks are real goroutines, exactly one holds the
// baton; every scheduling decision is drawn from the run's PRNG (seeded mode) or read from
// an explicit schedule (literal mode: replay, minimisation, sweeps).

import (
	"fmt"
	"runtime"
	"sort"
	"sync"
	"sync/atomic"
	"time"

	rt "github.com/cloudspannerecosystem/memefish/verifsimrt"
	"github.com/cloudspannerecosystem/memefish/verifsync"
)

// ---- plans and schedules: explicit data ------------------------------------------------------------

type OpPlan struct {
	Key      opKey
	Twice    bool // issue the call twice back to back (O2)
	Scribble bool // fault: the owner overwrites the returned values afterwards
	Fresh    bool // the caller passes freshly allocated copies of path and text
	Shared   int  // >=0: operate on Plan.Shared[Shared] instead of parsing (read-only sharing)
}

type TaskPlan struct{ Ops []OpPlan }

type Plan struct {
	Tasks  []TaskPlan
	Shared []opKey // parsed solo in the prologue, then only read
}

type Segment struct {
	Task int   // task index
	N    int64 // run it for N yields (or until it finishes or blocks)
	// Op >= 0: N is relative to an operation: the segment ends at the N-th yield the task
	// executes inside its operation Op (yield 1 is the operation-boundary yield), or when
	// the task gets past that operation.  Op < 0: N counts every yield of the segment.
	Op int
}

type Schedule struct {
	Segs []Segment
	GC   []int64 // global step numbers at which the gc fault fires
}

// strategy parameters of a seeded run
type stratCfg struct {
	Kind   int // sRandom, sPCT, sRoundRobin, sSerial, sBoundary
	P      int // random: 1/P per counted yield; round robin: quantum
	D      int // PCT: number of priority change points
	Gran   uint8
	GCDen  int // gc fault: 1/GCDen per counted yield (0: off)
	Stall  int // stall fault: 1/Stall per switch decision (0: off)
	StallS int64
}

const (
	sRandom = iota
	sPCT
	sRoundRobin
	sSerial
	sBoundary
	sRare // preempt where the code is rare: at yield sites few operations of the pool execute
	nStrats
)

var stratNames = []string{"random-walk", "pct", "round-robin", "serial-permutation", "op-boundary", "rare-site"}

// ---- failures ----------------------------------------------------------------------------------------

type failure struct {
	Oracle string `json:"oracle"`
	Task   int    `json:"task"`
	Op     int    `json:"op"`
	Key    string `json:"key"`
	Got    uint64 `json:"got"`
	Want   uint64 `json:"want"`
	Detail string `json:"detail"`
}

// ---- the simulator -----------------------------------------------------------------------------------

type retained struct {
	sub   *subject
	h0    uint64
	task  int
	op    int
	key   opKey
	share bool // a shared (prologue) subject
}

type task struct {
	id       int
	g        uintptr
	plan     *TaskPlan
	resume   chan struct{}
	done     bool
	started  bool
	inOp     bool
	opIdx    int
	opSteps  int64
	lastSite uint32
	blocked  any // simulated primitive this task waits for
	// ext: the task is blocked on something the simulator does not own (a channel, a real
	// lock, a WaitGroup) and the watchdog has granted the baton past it (DESIGN §2.4)
	ext      atomic.Bool
	inLib    atomic.Bool // inside an operation (library code or its wrapper), not in harness bookkeeping
	stallTo  int64
	prio     int
	since    int64 // yields since it got the baton
	retained []*retained
}

type sim struct {
	cur   atomic.Pointer[task]
	tasks []*task
	plan  *Plan
	refs  *refTable

	// mode
	lit     *Schedule // literal schedule (nil: seeded)
	litSeg  int
	litLeft int64
	litOp   int
	litN    int64
	litGC   int
	rng     *rng
	cfg     stratCfg
	change  []int64 // PCT change points
	lowPrio int

	// recording
	rec      Schedule
	segStart int64

	step, switches int64
	progress       int64 // atomic copy of step for the watchdog
	logHash        uint64
	sigHash        uint64
	suspInOp       int
	overlapped     bool
	fails          []failure
	shared         []*retained
	stepCap        int64
	aborted        string // non-empty: run abandoned (deadlock, budget)
	faults         map[string]int
	doneCh         chan struct{}
	exited         sync.WaitGroup
	foreign        int64
	countOnly      bool
	extEnabled     bool // the tree under test can block for real: grant the baton past blocked tasks
	extMu          sync.Mutex
	degraded       bool
	extEvents      int
	countSites     bool
	cover          []uint8   // countOnly: yield sites executed
	trace          *[]uint32 // countOnly: the sequence of yield sites
	wantText       bool
	infeasible     int
}

// global (per process) reach counters
var (
	siteCover  []uint8
	switchEdge = map[uint64]struct{}{}
)

const siteBoundary = ^uint32(0)

func (s *sim) Active() bool {
	t := s.cur.Load()
	return t != nil && rt.Getg() == t.g
}

func (s *sim) counted(site uint32) bool {
	if site == siteBoundary {
		return true
	}
	return rt.SiteClass[site]&s.cfg.Gran != 0
}

// Yield is called in front of every statement of the library.
func (s *sim) Yield(site uint32) {
	if s.countOnly {
		s.step++
		if s.cover != nil {
			s.cover[site] = 1
		}
		if s.countSites && siteEpoch[site] != soloEpoch {
			siteEpoch[site] = soloEpoch
			siteOpCount[site]++
			if soloOpIdx >= 0 && len(siteOpList[site]) < siteListCap {
				siteOpList[site] = append(siteOpList[site], soloOpIdx)
			}
		}
		if s.trace != nil {
			*s.trace = append(*s.trace, site)
		}
		return
	}
	t := s.cur.Load()
	if t == nil {
		return
	}
	if g := rt.Getg(); g != t.g {
		if s.extEnabled {
			for _, me := range s.tasks {
				if me.g == g && me.ext.Load() {
					// a task that was blocked for real has come back: it waits for the baton
					s.reenter(me)
					s.yield(me, site)
					return
				}
			}
		}
		atomic.AddInt64(&s.foreign, 1)
		return
	}
	s.yield(t, site)
}

// reenter: a task whose external blocking ended takes the baton if nobody is running,
// otherwise parks until it is scheduled again.
func (s *sim) reenter(me *task) {
	s.extMu.Lock()
	me.ext.Store(false)
	h := s.cur.Load()
	if h == nil || h == me || h.done || h.ext.Load() || h.blocked != nil {
		s.cur.Store(me)
		s.extMu.Unlock()
		return
	}
	s.extMu.Unlock()
	<-me.resume
	if s.aborted != "" {
		panic(runAbort{})
	}
}

// ensureBaton is called by a task when it returns from library code into harness
// bookkeeping: if the watchdog granted the baton away while it was blocked, it waits.
func (s *sim) ensureBaton(t *task) {
	if s.extEnabled && t.ext.Load() {
		s.reenter(t)
	}
}

// grantPast is called by the watchdog when no yield happened for a while: if the baton
// holder is inside an operation, it is taken to be blocked for real and the next parked task
// gets the baton.  The run is degraded: its schedule is no longer a pure function of the seed.
func (s *sim) grantPast() bool {
	s.extMu.Lock()
	defer s.extMu.Unlock()
	t := s.cur.Load()
	if t == nil || t.done || t.ext.Load() || !t.inLib.Load() {
		return false
	}
	for _, u := range s.tasks {
		if u != t && !u.done && u.blocked == nil && !u.ext.Load() {
			t.ext.Store(true)
			s.degraded = true
			s.extEvents++
			s.cur.Store(u)
			u.resume <- struct{}{}
			return true
		}
	}
	return false
}

func (s *sim) anyExt() bool {
	for _, u := range s.tasks {
		if !u.done && u.ext.Load() {
			return true
		}
	}
	return false
}

func (s *sim) yield(t *task, site uint32) {
	if s.aborted != "" {
		panic(runAbort{})
	}
	s.step++
	if s.step&255 == 0 {
		atomic.StoreInt64(&s.progress, s.step)
	}
	t.opSteps++
	t.since++
	t.lastSite = site
	s.logHash = (s.logHash ^ uint64(site) ^ uint64(t.id)<<40 ^ uint64(t.opIdx)<<48) * 0x100000001b3
	if site != siteBoundary {
		siteCover[site] = 1
		if s.suspInOp > 0 {
			s.overlapped = true
		}
	}
	if s.step > s.stepCap {
		s.aborted = "step budget exceeded"
		panic(runAbort{})
	}
	if s.lit != nil {
		for s.litGC < len(s.lit.GC) && s.lit.GC[s.litGC] <= s.step {
			if s.lit.GC[s.litGC] == s.step {
				s.fireGC()
			}
			s.litGC++
		}
		s.litLeft--
		if s.litOp >= 0 {
			// operation-relative segment
			s.litLeft = 1
			if t.opIdx > s.litOp || (t.opIdx == s.litOp && t.opSteps >= s.litN) {
				s.litLeft = 0
			}
		}
		if s.litLeft <= 0 {
			if u := s.nextLiteral(t, false); u != nil && u != t {
				s.switchTo(t, u)
			}
		}
		return
	}
	if !s.counted(site) {
		return
	}
	if s.cfg.GCDen > 0 && s.rng.intn(s.cfg.GCDen) == 0 {
		s.rec.GC = append(s.rec.GC, s.step)
		s.fireGC()
	}
	if u := s.decide(t, site); u != nil && u != t {
		s.switchTo(t, u)
	}
}

type runAbort struct{}

func (s *sim) fireGC() {
	s.faults["gc"]++
	runtime.GC()
	runtime.GC()
	if gcHook != nil {
		gcHook()
	}
}

// gcHook lets the simulated sync.Pool be emptied by the gc fault.
var gcHook = verifsync.DrainPools

func (s *sim) eligible(t *task) bool {
	return !t.done && t.blocked == nil && !t.ext.Load()
}

func (s *sim) others(t *task, honourStall bool) []*task {
	var out []*task
	for _, u := range s.tasks {
		if u != t && s.eligible(u) && (!honourStall || u.stallTo <= s.step) {
			out = append(out, u)
		}
	}
	return out
}

// decide implements the seeded strategies; it returns the task to run next (nil/t: stay).
func (s *sim) decide(t *task, site uint32) *task {
	switch s.cfg.Kind {
	case sRandom:
		if s.rng.intn(s.cfg.P) != 0 {
			return nil
		}
	case sRoundRobin:
		if t.since < int64(s.cfg.P) {
			return nil
		}
		n := len(s.tasks)
		for i := 1; i < n; i++ {
			u := s.tasks[(t.id+i)%n]
			if s.eligible(u) {
				return u
			}
		}
		return nil
	case sPCT:
		for len(s.change) > 0 && s.change[0] <= s.step {
			s.change = s.change[1:]
			s.lowPrio--
			t.prio = s.lowPrio
		}
		best := t
		for _, u := range s.tasks {
			if s.eligible(u) && u.prio > best.prio {
				best = u
			}
		}
		return best
	case sSerial:
		return nil
	case sBoundary:
		if site != siteBoundary || s.rng.intn(2) != 0 {
			return nil
		}
	case sRare:
		// cfg.P is the rarity threshold (number of reference operations that reach the site)
		// (also at every site of a function that mentions a package-level variable)
		if site == siteBoundary || s.refs == nil || int(site) >= len(s.refs.siteOps) ||
			(s.refs.siteOps[site] > uint32(s.cfg.P) && rt.SiteClass[site]&16 == 0) || s.rng.intn(4) != 0 {
			return nil
		}
	}
	// random pick among the others; maybe stall the current task
	os := s.others(t, true)
	if len(os) == 0 {
		os = s.others(t, false)
	}
	if len(os) == 0 {
		return nil
	}
	if s.cfg.Stall > 0 && t.inOp && s.rng.intn(s.cfg.Stall) == 0 {
		t.stallTo = s.step + s.cfg.StallS
		s.faults["stall"]++
	}
	return os[s.rng.intn(len(os))]
}

// nextLiteral advances to the next feasible segment of the literal schedule.
// leaving: the current task cannot continue (finished or blocked).
func (s *sim) nextLiteral(t *task, leaving bool) *task {
	for s.litSeg < len(s.lit.Segs) {
		seg := s.lit.Segs[s.litSeg]
		s.litSeg++
		if seg.Task < 0 || seg.Task >= len(s.tasks) || seg.N <= 0 {
			s.infeasible++
			continue
		}
		u := s.tasks[seg.Task]
		if !s.eligible(u) {
			s.infeasible++
			continue
		}
		s.litLeft = seg.N
		s.litOp, s.litN = seg.Op, seg.N
		return u
	}
	// schedule exhausted: run the remaining tasks to completion in index order
	s.litLeft = 1 << 62
	s.litOp = -1
	if !leaving && s.eligible(t) {
		return t
	}
	for _, u := range s.tasks {
		if u != t && s.eligible(u) {
			return u
		}
	}
	return nil
}

// endSegment records that t ran for the yields since the last hand-over.  A segment (T, N)
// means: T runs and is switched out at its N-th yield.  A segment that ended because the
// task finished or blocked is recorded with N+1, so that replay never preempts it.
func (s *sim) endSegment(t *task, leaving bool) {
	n := s.step - s.segStart
	if leaving {
		n++
	}
	s.rec.Segs = append(s.rec.Segs, Segment{Task: t.id, N: n, Op: -1})
	s.segStart = s.step
}

func (s *sim) switchTo(t, u *task) {
	s.switches++
	s.faults["preempt"]++
	s.endSegment(t, false)
	s.sigHash = (s.sigHash ^ (uint64(t.id)<<56 | uint64(t.opIdx)<<40 | uint64(t.lastSite))) * 0x100000001b3
	switchEdge[uint64(t.lastSite)<<32|uint64(u.lastSite)] = struct{}{}
	if t.inOp {
		s.suspInOp++
	}
	u.since = 0
	s.cur.Store(u)
	u.resume <- struct{}{}
	<-t.resume
	atomic.StoreInt64(&s.progress, s.step)
	if s.aborted != "" {
		panic(runAbort{})
	}
	if t.inOp {
		s.suspInOp--
	}
}

// leave hands the baton on when the current task cannot continue (finished or blocked).
// It returns false if nobody can run.
func (s *sim) leave(t *task) bool {
	var u *task
	if s.lit != nil {
		u = s.nextLiteral(t, true)
	} else {
		os := s.others(t, false)
		if len(os) > 0 {
			switch s.cfg.Kind {
			case sPCT:
				u = os[0]
				for _, o := range os {
					if o.prio > u.prio {
						u = o
					}
				}
			case sRoundRobin:
				n := len(s.tasks)
				for i := 1; i < n && u == nil; i++ {
					if c := s.tasks[(t.id+i)%n]; s.eligible(c) {
						u = c
					}
				}
			default:
				u = os[s.rng.intn(len(os))]
			}
		}
	}
	if u == nil {
		return false
	}
	s.endSegment(t, true)
	u.since = 0
	s.cur.Store(u)
	u.resume <- struct{}{}
	return true
}

// Block parks the calling task on a simulated primitive.
func (s *sim) Block(key any, what string) {
	t := s.cur.Load()
	t.blocked = key
	s.faults["block"]++
	if t.inOp {
		s.suspInOp++
	}
	if !s.leave(t) && !s.anyExt() {
		// every unfinished task waits for a simulated primitive: deadlock
		s.fails = append(s.fails, failure{Oracle: "O6", Task: t.id, Op: t.opIdx, Key: t.plan.Ops[t.opIdx].Key.String(),
			Detail: "deadlock: every unfinished task is blocked on a simulated sync primitive; last: " + what})
		s.aborted = "deadlock"
		t.blocked = nil
		s.wakeAll(t)
		panic(runAbort{})
	}
	<-t.resume
	if s.aborted != "" {
		panic(runAbort{})
	}
	if t.inOp {
		s.suspInOp--
	}
}

// Wake makes the tasks blocked on key runnable.
func (s *sim) Wake(key any) {
	for _, u := range s.tasks {
		if u.blocked == key {
			u.blocked = nil
		}
	}
}

// ---- running a plan -------------------------------------------------------------------------------------

type runResult struct {
	LogHash    uint64
	SigHash    uint64
	Steps      int64
	Switches   int64
	Overlapped bool
	Fails      []failure
	Rec        Schedule
	Faults     map[string]int
	Aborted    string
	Ops        int
	Infeasible int
	Degraded   bool // the watchdog granted the baton past a task that was blocked for real
	ExtEvents  int
	Foreign    int64
	Outcomes   []uint64    // per (task, op) outcome hash, in task-major order
	Retained   []*retained // values still held (not overwritten) by the tasks at the end of the run
	Texts      []string    // with wantText
}

// extBlockEnabled: the instrumented tree contains channel operations, real sync primitives
// or goroutines of its own (set by the driver with -extblock)
var extBlockEnabled bool

type execOpts struct {
	lit      *Schedule
	rng      *rng
	cfg      stratCfg
	wantText bool
	refs     *refTable
}

func (s *sim) taskMain(t *task, outcomes [][]uint64, texts [][]string) {
	defer func() {
		if r := recover(); r != nil {
			if _, ok := r.(runAbort); !ok {
				// a harness bug or a foreign panic that escaped an operation wrapper
				s.fails = append(s.fails, failure{Oracle: "HARNESS", Task: t.id, Op: t.opIdx, Detail: fmt.Sprintf("task panicked: %v", r)})
				s.aborted = "harness panic"
			}
			t.done = true
			s.wakeAll(t) // so that everybody can unwind
			select {
			case s.doneCh <- struct{}{}:
			default:
			}
			s.exited.Done()
		}
	}()
	t.g = rt.Getg()
	t.started = true
	<-t.resume
	if s.aborted != "" {
		panic(runAbort{})
	}
	for i := range t.plan.Ops {
		t.opIdx = i
		t.opSteps = 0
		s.ensureBaton(t)
		s.yield(t, siteBoundary)
		s.checkOneRetained(t)
		op := &t.plan.Ops[i]
		s.doOp(t, i, op, outcomes, texts)
	}
	t.opIdx = len(t.plan.Ops)
	s.ensureBaton(t)
	t.done = true
	if !s.leave(t) {
		s.endSegment(t, true)
		if s.anyExt() {
			// somebody is blocked for real and will take the baton when it comes back
			s.exited.Done()
			return
		}
		for _, u := range s.tasks {
			if !u.done {
				// nobody can run but somebody has not finished: deadlock among simulated primitives
				s.fails = append(s.fails, failure{Oracle: "O6", Task: u.id, Op: u.opIdx, Key: u.plan.Ops[u.opIdx].Key.String(),
					Detail: "deadlock: every unfinished task is blocked on a simulated sync primitive"})
				s.aborted = "deadlock"
				s.wakeAll(t)
				break
			}
		}
		s.doneCh <- struct{}{}
	}
	s.exited.Done()
}

// wakeAll releases every parked task so that it can unwind after the run was abandoned.
func (s *sim) wakeAll(except *task) {
	for _, u := range s.tasks {
		if u != except && !u.done {
			select {
			case u.resume <- struct{}{}:
			default:
			}
		}
	}
}

func (s *sim) doOp(t *task, i int, op *OpPlan, outcomes [][]uint64, texts [][]string) {
	var sh *subject
	if op.Shared >= 0 && op.Shared < len(s.shared) && op.Key.Variant != vEditSQL {
		sh = s.shared[op.Shared].sub
		s.faults["shared-read"]++
	}
	t.inOp = true
	t.inLib.Store(true)
	res := runOpX(op.Key, sh, s.wantText, op.Fresh)
	t.inLib.Store(false)
	s.ensureBaton(t)
	t.inOp = false
	outcomes[t.id][i] = res.hash
	s.logHash = (s.logHash ^ res.hash) * 0x100000001b3
	if s.wantText {
		texts[t.id][i] = res.text
	}
	s.checkOutcome(t, i, op.Key, res.hash, "O1")
	for _, msg := range drainInvariants() {
		s.fails = append(s.fails, failure{Oracle: "O7", Task: t.id, Op: i, Key: op.Key.String(), Detail: msg})
	}
	if op.Twice {
		s.faults["repeat"]++
		t.inOp = true
		t.inLib.Store(true)
		res2 := runOpX(op.Key, sh, false, op.Fresh)
		t.inLib.Store(false)
		s.ensureBaton(t)
		t.inOp = false
		s.checkOutcome(t, i, op.Key, res2.hash, "O2")
		if sh == nil {
			s.retain(t, i, op.Key, res2.sub)
		}
	}
	switch op.Key.Variant {
	case vAbort1, vAbort2:
		s.faults["abort"]++
	case vInspectMaskA, vInspectMaskB, vPreorderBreak1, vPreorderBreak2:
		s.faults["early-exit"]++
	case vReenter:
		s.faults["reenter"]++
	}
	if res.sub.pan != nil {
		s.faults["abort"]++
	}
	if sh != nil {
		return
	}
	if op.Scribble {
		s.faults["scribble"]++
		scribble(res.sub.val)
		scribble(res.sub.err)
		res.sub.nodes = nil
		return
	}
	s.retain(t, i, op.Key, res.sub)
}

func (s *sim) retain(t *task, i int, k opKey, sub *subject) {
	r := &retained{sub: sub, task: t.id, op: i, key: k}
	r.h0 = structHash(sub.val, sub.err)
	t.retained = append(t.retained, r)
}

func (s *sim) checkOutcome(t *task, i int, k opKey, got uint64, oracle string) {
	if s.refs == nil {
		return
	}
	want, ok := s.refs.get(k)
	if !ok {
		s.fails = append(s.fails, failure{Oracle: "HARNESS", Task: t.id, Op: i, Key: k.String(), Detail: "no reference for key"})
		return
	}
	if got != want {
		s.fails = append(s.fails, failure{Oracle: oracle, Task: t.id, Op: i, Key: k.String(), Got: got, Want: want,
			Detail: "outcome of the call differs from the outcome of the same call executed solo in a fresh process"})
	}
}

// checkOneRetained re-dumps one value returned earlier to this task (O3, sampled).
func (s *sim) checkOneRetained(t *task) {
	if len(t.retained) == 0 {
		return
	}
	r := t.retained[(t.opIdx*7+t.id)%len(t.retained)]
	s.checkRetained(r, fmt.Sprintf("before operation %d of task %d", t.opIdx, t.id))
}

func (s *sim) checkRetained(r *retained, when string) bool {
	if h := structHash(r.sub.val, r.sub.err); h != r.h0 {
		what := "a value returned earlier and only held since then has changed"
		if r.share {
			what = "a value shared read-only between tasks (only SQL/Pos/End/Walk/Error were called on it) has changed"
		}
		s.fails = append(s.fails, failure{Oracle: "O3", Task: r.task, Op: r.op, Key: r.key.String(), Got: h, Want: r.h0,
			Detail: what + "; noticed " + when})
		r.h0 = h
		return false
	}
	return true
}

// execRun executes one plan under one schedule source.
func execRun(plan *Plan, o execOpts) *runResult {
	s := &sim{plan: plan, refs: o.refs, lit: o.lit, rng: o.rng, cfg: o.cfg, faults: map[string]int{},
		doneCh: make(chan struct{}, len(plan.Tasks)+1), logHash: fnvOff, sigHash: fnvOff, wantText: o.wantText, litOp: -1}
	if s.cfg.Gran == 0 {
		s.cfg.Gran = 0xff
	}
	s.extEnabled = extBlockEnabled
	res := &runResult{}
	// prologue: shared subjects are parsed solo, before any task exists
	for i, k := range plan.Shared {
		sub := callEntry(int(k.Entry), pathOf(k), pool.inputs[k.Input].text)
		sub.initSeqs()
		r := &retained{sub: sub, task: -1, op: i, key: k, share: true}
		r.h0 = structHash(sub.val, sub.err)
		s.shared = append(s.shared, r)
	}
	var expect int64
	outcomes := make([][]uint64, len(plan.Tasks))
	texts := make([][]string, len(plan.Tasks))
	for i := range plan.Tasks {
		tp := &plan.Tasks[i]
		t := &task{id: i, plan: tp, resume: make(chan struct{}, 1), prio: 0}
		s.tasks = append(s.tasks, t)
		outcomes[i] = make([]uint64, len(tp.Ops))
		texts[i] = make([]string, len(tp.Ops))
		for _, op := range tp.Ops {
			res.Ops++
			n := int64(2000)
			if o.refs != nil {
				if st, ok := o.refs.steps(op.Key); ok {
					n = st
				}
			}
			if op.Twice {
				n *= 2
			}
			expect += n + 1
		}
	}
	s.stepCap = expect*1000 + 1_000_000
	if len(s.tasks) == 0 {
		return res
	}
	// seeded strategy set-up
	var first *task
	if s.lit != nil {
		first = s.nextLiteral(s.tasks[0], false)
		if first == nil {
			first = s.tasks[0]
		}
	} else {
		if s.cfg.Kind == sPCT {
			perm := make([]int, len(s.tasks))
			for i := range perm {
				perm[i] = i
			}
			for i := len(perm) - 1; i > 0; i-- {
				j := s.rng.intn(i + 1)
				perm[i], perm[j] = perm[j], perm[i]
			}
			for i, t := range s.tasks {
				t.prio = perm[i] + 1
			}
			for d := 0; d < s.cfg.D; d++ {
				s.change = append(s.change, 1+int64(s.rng.next()%uint64(expect+1)))
			}
			sortInt64(s.change)
			first = s.tasks[0]
			for _, t := range s.tasks {
				if t.prio > first.prio {
					first = t
				}
			}
		} else {
			first = s.tasks[s.rng.intn(len(s.tasks))]
		}
	}
	old := rt.Hook
	rt.Hook = s
	s.exited.Add(len(s.tasks))
	for _, t := range s.tasks {
		go s.taskMain(t, outcomes, texts)
	}
	s.cur.Store(first)
	first.resume <- struct{}{}
	// wait, with a real-time watchdog (external blocking, DESIGN §2.4)
	wd := time.NewTimer(watchdogEvery)
	last := int64(-1)
	stuck := 0
wait:
	for {
		select {
		case <-s.doneCh:
			break wait
		case <-wd.C:
			cur := atomic.LoadInt64(&s.progress)
			if cur == last && s.extEnabled && s.grantPast() {
				stuck = 0
			} else if cur == last {
				stuck++
				if stuck >= int(10*time.Second/watchdogEvery) {
					s.aborted = "external block (no yield for 10 s of real time)"
					res.Fails = append(res.Fails, failure{Oracle: "HARNESS", Detail: s.aborted})
					break wait
				}
			} else {
				stuck = 0
			}
			last = cur
			wd.Reset(watchdogEvery)
		}
	}
	wd.Stop()
	if s.aborted == "" {
		s.exited.Wait()
	} else {
		// abandoned run: give the tasks a moment to unwind; parked ones are leaked
		ch := make(chan struct{})
		go func() { s.exited.Wait(); close(ch) }()
		select {
		case <-ch:
		case <-time.After(2 * time.Second):
		}
	}
	s.cur.Store(nil)
	rt.Hook = old
	// O3 at the end of the run: every retained value, every shared subject
	if s.aborted == "" || s.aborted == "deadlock" {
		for _, t := range s.tasks {
			for _, r := range t.retained {
				s.checkRetained(r, "at the end of the run")
			}
		}
		for _, r := range s.shared {
			s.checkRetained(r, "at the end of the run")
		}
		s.checkDisjoint()
	}
	if s.aborted == "" && len(s.fails) == 0 {
		for _, t := range s.tasks {
			res.Retained = append(res.Retained, t.retained...)
		}
	}
	res.LogHash, res.SigHash = mix64(s.logHash), mix64(s.sigHash)
	res.Steps, res.Switches, res.Overlapped = s.step, s.switches, s.overlapped
	res.Fails = append(res.Fails, s.fails...)
	res.Rec = s.rec
	res.Faults = s.faults
	res.Aborted = s.aborted
	res.Infeasible = s.infeasible
	res.Degraded, res.ExtEvents = s.degraded, s.extEvents
	res.Foreign = atomic.LoadInt64(&s.foreign)
	for _, o := range outcomes {
		res.Outcomes = append(res.Outcomes, o...)
	}
	if o.wantText {
		for _, t := range texts {
			res.Texts = append(res.Texts, t...)
		}
	}
	return res
}

const watchdogEvery = 50 * time.Millisecond

// checkDisjoint is the structural accelerator of O4: results of different calls must not
// reach the same memory; a hit is reported only after it has been witnessed through the API
// (scribbling one result changes the dump of the other).
func (s *sim) checkDisjoint() {
	var all []*retained
	for _, t := range s.tasks {
		all = append(all, t.retained...)
	}
	all = append(all, s.shared...)
	if len(all) < 2 {
		return
	}
	type pair struct{ a, b *retained }
	cand := map[pair]bool{}
	type own struct {
		extent
		r *retained
	}
	var exts []own
	for _, r := range all {
		m := map[extent]struct{}{}
		reach(r.sub.val, m)
		reach(r.sub.err, m)
		for e := range m {
			exts = append(exts, own{e, r})
		}
	}
	sort.Slice(exts, func(i, j int) bool { return exts[i].lo < exts[j].lo })
	// sweep: overlapping extents of different results
	var maxHi uintptr
	var maxOwner *retained
	for i, e := range exts {
		if i > 0 && e.lo < maxHi && maxOwner != e.r {
			cand[pair{maxOwner, e.r}] = true
		}
		// also against the direct predecessor chain (same owner may have raised maxHi)
		for j := i - 1; j >= 0 && j >= i-8; j-- {
			if exts[j].hi > e.lo && exts[j].r != e.r {
				cand[pair{exts[j].r, e.r}] = true
			}
		}
		if e.hi > maxHi {
			maxHi, maxOwner = e.hi, e.r
		}
	}
	s.faults["o4-candidates"] += len(cand)
	for pr := range cand {
		// witness: scribble a, observe b (then the other way round)
		before := structHash(pr.b.sub.val, pr.b.sub.err)
		scribble(pr.a.sub.val)
		scribble(pr.a.sub.err)
		after := structHash(pr.b.sub.val, pr.b.sub.err)
		if before == after {
			pr.a, pr.b = pr.b, pr.a
			before = structHash(pr.b.sub.val, pr.b.sub.err)
			scribble(pr.a.sub.val)
			scribble(pr.a.sub.err)
			after = structHash(pr.b.sub.val, pr.b.sub.err)
		}
		if before != after {
			s.fails = append(s.fails, failure{Oracle: "O4", Task: pr.b.task, Op: pr.b.op, Key: pr.b.key.String(), Got: after, Want: before,
				Detail: fmt.Sprintf("the results of two different calls share mutable memory: overwriting the values returned for %s (task %d op %d) changed the values returned for this call",
					pr.a.key, pr.a.task, pr.a.op)})
			return
		}
	}
}

func sortInt64(a []int64) {
	for i := 1; i < len(a); i++ {
		for j := i; j > 0 && a[j] < a[j-1]; j-- {
			a[j], a[j-1] = a[j-1], a[j]
		}
	}
}
