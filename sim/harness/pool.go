package main

// The input pool (DESIGN §2.3): corpus files of the tree under test, built-in malformed and
// edge inputs, seeded corruptions of the corpus.  The pool and the list of operations are a
// pure function of (testdata of the tree under test, VERIF_SEED).

import (
	"fmt"
	"hash/adler32"
	"hash/crc32"
	"hash/fnv"
	"os"
	"path/filepath"
	"reflect"
	"sort"
	"strings"
)

type input struct {
	text   string
	origin string // corpus file, "edge", "corrupt:<file>", "sibling:<file>", "churn"
	entry  int    // natural entry point
	paths  [2]uint8
	family int32 // index of the input this one was derived from (itself otherwise)
	class  uint8 // clsCorpus ...
}

const (
	clsCorpus = iota
	clsEdge
	clsCorrupt
	clsSibling
	clsChurn
	clsLarge
	clsSize
	nClasses
)

var classNames = []string{"corpus", "edge", "corrupt", "sibling", "churn", "large", "size"}

type poolT struct {
	inputs []input
	paths  []string
	ops    []opKey         // every operation of the reference table, canonical order
	opIdx  map[opKey]int32 // index into ops
	// groups for contention modes
	byPath   map[uint8][]int32  // ops by path index
	byInput  map[uint32][]int32 // ops by input index
	byFamily map[int32][]int32  // ops by input family
	byClass  [nClasses][]int32  // ops by input class
}

var pool poolT

// extraInputs are appended to the pool by buildPool (set before it is called).
var extraInputs []grownInput

func pathOf(k opKey) string { return pool.paths[k.Path] }

func isNilIface(x any) bool {
	v := reflect.ValueOf(x)
	switch v.Kind() {
	case reflect.Pointer, reflect.Slice, reflect.Map, reflect.Interface, reflect.Func, reflect.Chan:
		return v.IsNil()
	}
	return false
}

var sharedPaths = []string{"", "a.sql", "b.sql"}

var edgeInputs = []string{
	"", " ", ";", ";;", "\n", "-- c", "/* c */", "/* unterminated", "#c\n1",
	"1a", "'abc", "\"abc", "``", "`", "'''x", "b'\\x", "\"\\x", "r'\\", "0x", "1e", "1.e+", ".5", "@", "@@", "@p", "?",
	"SELECT 1; \x00", "\x00", "\xff\xfe", "SELECT", "SELECT 1", "SELECT 1;", "SELECT 1; SELECT 2", "SELECT 1;;SELECT 2;",
	"SELECT * FROM", "SELECT (1", "SELECT 1)", "SELECT a.b.c.1.d FROM t", "SELECT a.1e5", "SELECT t.SELECT.FROM",
	"SELECT ARRAY<STRUCT<a INT64, b ARRAY<INT64>>>[]", "ARRAY<ARRAY<INT64>>", "ARRAY<ARRAY<INT64", "STRUCT<a ARRAY<INT64>>",
	"STRUCT<>", "INT64", "STRING(MAX)", "STRING(", "NEW T(1) + 1", "1 + ", "1 + 2 * 3 - -4", "a AND b OR NOT c IS NULL",
	"CASE WHEN 1 THEN 2", "CASE x WHEN 1 THEN 2 ELSE 3 END", "[1, 2", "(SELECT 1) UNION ALL (SELECT 2", "x BETWEEN 1 AND",
	"SELECT 1 FROM a JOIN b ON", "SELECT 1 UNION SELECT", "INSERT INTO t (a) VALUES (1), (", "UPDATE t SET a = WHERE true",
	"DELETE FROM t WHERE", "CREATE TABLE t (", "CREATE TABLE t (a INT64) PRIMARY KEY (a);\nCREATE TABLE u (\n  b STRING(MAX\n) PRIMARY KEY (b);\nDROP TABLE v",
	"ALTER TABLE t ADD COLUMN", "DROP", "CREATE INDEX i ON t(a) STORING", "GRANT SELECT ON TABLE t TO ROLE", "SELECT 1;\n\nSELECT (;\n\nSELECT 3",
	"SELECT 'a\nb'", "SELECT \"\"\"a\nb\"\"\" ,\n  x y z", "SELECT /*+ hint */ 1", "@{a=1} SELECT 1", "SELECT 1 /* c1 */ + /* c2 */ 2 -- tail",
	"select * from `a-b`.c where x in unnest(@p) and y like '%\\'%'", "SELECT a >> b << c", "SELECT CAST(x AS ARRAY<STRUCT<INT64,STRING>>)",
	"INSERT OR UPDATE INTO t (a, b) VALUES (1, DEFAULT) THEN RETURN *", "SELECT 1 FROM t TABLESAMPLE BERNOULLI (1 PERCENT)",
	"GRAPH g MATCH (a)-[e]->(b) RETURN a", "FROM t |> WHERE x |> SELECT", "CALL p(1, (SELECT 2))", "SELECT x'", "SELECT 1 LIMIT", "SELECT INTERVAL 1 DAY +",
}

var allParseHelpers = []int{eParseStatement, eParseStatements, eParseQuery, eParseExpr, eParseType, eParseDDL, eParseDDLs, eParseDML, eParseDMLs}

// buildPool reads the corpus from <root>/testdata/input and derives the rest from seed.
// scale < 1 thins the corpus (quick tier).
func buildPool(root string, seed uint64, corrupt, churn, large int) error {
	p := poolT{opIdx: map[opKey]int32{}, byPath: map[uint8][]int32{}, byInput: map[uint32][]int32{}, byFamily: map[int32][]int32{}}
	p.paths = append(p.paths, sharedPaths...)
	pathIdx := map[string]uint8{}
	for i, s := range p.paths {
		pathIdx[s] = uint8(i)
	}
	dirEntry := map[string]int{"ddl": eParseDDL, "dml": eParseDML, "expr": eParseExpr, "query": eParseQuery, "statement": eParseStatement}
	var files []string
	base := filepath.Join(root, "testdata", "input")
	_ = filepath.Walk(base, func(pth string, info os.FileInfo, err error) error {
		if err == nil && !info.IsDir() && strings.HasSuffix(pth, ".sql") {
			files = append(files, pth)
		}
		return nil
	})
	sort.Strings(files)
	// the real paths are spread over a small number of path indices (uint8), the rest
	// share: what matters is that equal paths meet different texts and vice versa.
	var corpus []int
	for i, f := range files {
		b, err := os.ReadFile(f)
		if err != nil {
			return err
		}
		rel, _ := filepath.Rel(root, f)
		dir := filepath.Base(filepath.Dir(f))
		e, ok := dirEntry[dir]
		if !ok {
			e = eParseStatement
		}
		var real uint8
		if len(p.paths) < 200 {
			p.paths = append(p.paths, rel)
			real = uint8(len(p.paths) - 1)
		} else {
			real = uint8(3 + i%197)
		}
		shared := uint8(mix64(uint64(i)+77) % 3)
		p.inputs = append(p.inputs, input{text: string(b), origin: rel, entry: e, paths: [2]uint8{real, shared}, family: int32(len(p.inputs)), class: clsCorpus})
		corpus = append(corpus, len(p.inputs)-1)
	}
	if len(corpus) == 0 {
		return fmt.Errorf("no corpus files under %s", base)
	}
	for i, s := range edgeInputs {
		p.inputs = append(p.inputs, input{text: s, origin: "edge", entry: -1, paths: [2]uint8{uint8(i % 3), uint8((i + 1) % 3)}, family: int32(len(p.inputs)), class: clsEdge})
	}
	// seeded corruptions
	rng := newRNG(seed ^ 0xc0220971)
	for i := 0; i < corrupt; i++ {
		src := p.inputs[corpus[rng.intn(len(corpus))]]
		txt := corruptText(rng, src.text, p.inputs, corpus)
		p.inputs = append(p.inputs, input{text: txt, origin: "corrupt:" + src.origin, entry: src.entry,
			paths: [2]uint8{src.paths[0], uint8(rng.intn(3))}, family: src.family, class: clsCorrupt})
	}
	// typo sweep (typos.go): near-misses of the leading keywords; substitutions in big pools only
	p.inputs = append(p.inputs, typoSweep(p.inputs, corpus, corrupt >= 1000)...)
	// operator slips and doubled lists (sweeps2.go)
	p.inputs = append(p.inputs, slipAndDoubleSweep(rng, p.inputs, corpus, 2*corrupt)...)
	// stray tails (sweeps2.go): complete statements followed by a token that cannot continue them
	p.inputs = append(p.inputs, strayTailSweep(p.inputs, corpus, 20+corrupt/15)...)
	// siblings: same length, same paths as their source, different line structure or one
	// letter changed (what a cache with a weak key confuses)
	for i := 0; i < corrupt/2; i++ {
		src := p.inputs[corpus[rng.intn(len(corpus))]]
		if i%5 == 4 {
			src = p.inputs[len(corpus)+rng.intn(len(edgeInputs))]
		}
		txt := siblingText(rng, src.text)
		if txt == src.text {
			continue
		}
		e := src.entry
		if e < 0 {
			e = allParseHelpers[rng.intn(len(allParseHelpers))]
		}
		p.inputs = append(p.inputs, input{text: txt, origin: "sibling:" + src.origin, entry: e, paths: src.paths, family: src.family, class: clsSibling})
	}
	// same-length siblings of damaged and of large inputs too (an erroneous text of a kilobyte
	// or more and an equally long one with another line structure)
	nBefore := len(p.inputs)
	made := 0
	for i := 0; i < nBefore && made < corrupt/3; i++ {
		src := p.inputs[i]
		if src.class != clsCorrupt || len(src.text) < 600 {
			continue
		}
		txt := siblingText(rng, src.text)
		if txt == src.text {
			continue
		}
		made++
		p.inputs = append(p.inputs, input{text: txt, origin: "sibling:" + src.origin, entry: src.entry, paths: src.paths, family: src.family, class: clsSibling})
	}
	// normalisation siblings: texts that differ in raw form but collide under a plausible
	// normalised key (unquoted name, upper-cased word, string value, token sequence)
	for i := 0; i < corrupt/2; i++ {
		src := p.inputs[corpus[rng.intn(len(corpus))]]
		txt := normSibling(rng, src.text)
		if txt == src.text {
			continue
		}
		p.inputs = append(p.inputs, input{text: txt, origin: "sibling:" + src.origin, entry: src.entry, paths: src.paths, family: src.family, class: clsSibling})
	}
	// fingerprint collisions: pairs of equal length and equal cheap checksum (FNV-1/1a,
	// CRC-32, Adler-32, byte sum) whose line structure differs, found by a birthday search
	// over a tag in a comment; same paths (what a cache keyed by a 32-bit fingerprint confuses)
	for i, pr := range collisionPairs(rng) {
		pth := [2]uint8{uint8(i % 3), uint8((i + 1) % 3)}
		fam := int32(len(p.inputs))
		for _, txt := range pr {
			p.inputs = append(p.inputs, input{text: txt, origin: "collision", entry: eParseQuery, paths: pth, family: fam, class: clsSibling})
		}
	}
	// context families: one oddly-cased spelling of a keyword in several syntactic slots
	// (keyword position, after a dot, alias, back-quoted, function name, parameter, string):
	// what a classification cached per spelling confuses
	for i := 0; i < corrupt/4; i++ {
		kw := contextKeywords[rng.intn(len(contextKeywords))]
		sp := oddCase(rng, kw.word)
		fam := int32(len(p.inputs))
		pth := [2]uint8{uint8(rng.intn(3)), uint8(rng.intn(3))}
		texts := []string{
			strings.ReplaceAll(kw.natural, "#", sp),
			"SELECT t." + sp + " FROM t",
			"SELECT 1 AS " + sp,
			"SELECT `" + sp + "`, " + sp + "(1), @" + sp + ", '" + sp + "' FROM t",
			"SELECT x." + sp + "." + sp + " FROM x WHERE " + sp,
		}
		// order within the family varies, so that every slot comes first in some process
		for j := len(texts) - 1; j > 0; j-- {
			k := rng.intn(j + 1)
			texts[j], texts[k] = texts[k], texts[j]
		}
		for _, txt := range texts {
			p.inputs = append(p.inputs, input{text: txt, origin: "context", entry: eParseStatement, paths: pth, family: fam, class: clsSibling})
		}
	}
	// churn: many distinct identifiers (what a bounded cache or a pool needs to rotate)
	for i := 0; i < churn; i++ {
		txt, e := churnText(rng, i)
		p.inputs = append(p.inputs, input{text: txt, origin: "churn", entry: e, paths: [2]uint8{uint8(rng.intn(3)), uint8(rng.intn(3))},
			family: int32(len(p.inputs)), class: clsChurn})
	}

	// coverage-grown inputs (see grow.go), if the driver computed them
	for _, g := range extraInputs {
		if g.Src < 0 || g.Src >= len(p.inputs) {
			continue
		}
		src := p.inputs[g.Src]
		p.inputs = append(p.inputs, input{text: g.Text, origin: "grown:" + g.Kind + ":" + src.origin, entry: g.Entry, paths: src.paths, family: src.family, class: clsCorrupt})
	}
	// large and deep inputs: what a size- or depth-triggered code path needs
	for i := 0; i < large; i++ {
		txt, e := largeText(rng, i, p.inputs, corpus)
		p.inputs = append(p.inputs, input{text: txt, origin: "large", entry: e, paths: [2]uint8{uint8(rng.intn(3)), uint8(rng.intn(3))},
			family: int32(len(p.inputs)), class: clsLarge})
	}

	// same-length siblings of the large inputs (another line structure, same length)
	nLarge := len(p.inputs)
	for i := 0; i < nLarge; i++ {
		src := p.inputs[i]
		if src.class != clsLarge || len(src.text) > 70000 {
			continue
		}
		if txt := siblingText(rng, src.text); txt != src.text {
			p.inputs = append(p.inputs, input{text: txt, origin: "sibling:large", entry: src.entry, paths: src.paths, family: src.family, class: clsLarge})
		}
	}
	// size sweep (sizes.go)
	for _, sw := range sizeSweep() {
		cl := uint8(clsSize)
		if len(sw.text) > 12000 {
			cl = clsLarge // expensive: rarely chosen, linear-cost variants only
		}
		p.inputs = append(p.inputs, input{text: sw.text, origin: "size:" + sw.kind, entry: sw.entry, paths: [2]uint8{uint8(rng.intn(3)), uint8(rng.intn(3))},
			family: int32(len(p.inputs)), class: cl})
	}
	// views: prefixes that SHARE MEMORY with the text they are cut from (Go substrings: same
	// start address, other length), same paths - what a caller does who parses pieces of one
	// buffer (SplitRawStatements hands out such substrings), and what a cache keyed by the
	// identity of the buffer confuses
	nIn := len(p.inputs)
	for i := 0; i < nIn; i++ {
		src := p.inputs[i]
		if !(src.class == clsLarge || src.class == clsCorpus && i%4 == 0) || len(src.text) < 8 {
			continue
		}
		spans := tokenSpans(src.text)
		if len(spans) < 4 {
			continue
		}
		for _, frac := range []int{2, 7} {
			cut := spans[len(spans)*frac/8].hi
			if cut <= 0 || cut >= len(src.text) {
				continue
			}
			e := src.entry
			p.inputs = append(p.inputs, input{text: src.text[:cut], origin: "view:" + src.origin, entry: e, paths: src.paths, family: src.family, class: clsSibling})
		}
	}

	add := func(k opKey) {
		if !variantApplies(int(k.Entry), int(k.Variant)) {
			return
		}
		if _, dup := p.opIdx[k]; dup {
			return
		}
		p.opIdx[k] = int32(len(p.ops))
		p.byPath[k.Path] = append(p.byPath[k.Path], int32(len(p.ops)))
		p.byInput[k.Input] = append(p.byInput[k.Input], int32(len(p.ops)))
		in := p.inputs[k.Input]
		p.byFamily[in.family] = append(p.byFamily[in.family], int32(len(p.ops)))
		p.byClass[in.class] = append(p.byClass[in.class], int32(len(p.ops)))
		p.ops = append(p.ops, k)
	}
	for i, in := range p.inputs {
		ii := uint32(i)
		var bases []opKey
		switch {
		case in.class == clsEdge:
			for _, e := range allParseHelpers {
				bases = append(bases, opKey{Entry: uint8(e), Path: in.paths[0], Input: ii})
			}
			bases = append(bases, opKey{Entry: uint8(nParseEntries + allParseHelpers[i%len(allParseHelpers)]), Path: in.paths[1], Input: ii})
			bases = append(bases, opKey{Entry: eSplit, Path: in.paths[0], Input: ii}, opKey{Entry: eLex, Path: in.paths[1], Input: ii})
		default:
			bases = append(bases,
				opKey{Entry: uint8(in.entry), Path: in.paths[0], Input: ii},
				opKey{Entry: uint8(nParseEntries + in.entry), Path: in.paths[1], Input: ii},
				opKey{Entry: eParseStatements, Path: in.paths[1], Input: ii},
			)
			if i%2 == 0 {
				bases = append(bases, opKey{Entry: eSplit, Path: in.paths[1], Input: ii})
			} else {
				bases = append(bases, opKey{Entry: eLex, Path: in.paths[0], Input: ii})
			}
		}
		if i%3 == 0 {
			bases = append(bases, opKey{Entry: eQuote, Path: in.paths[0], Input: ii}, opKey{Entry: eHandBuilt, Path: in.paths[1], Input: ii})
		}
		for j, b := range bases {
			add(b) // variant 0
			// a rotating selection of the other variants
			nv := 3
			if in.class == clsEdge || in.class == clsChurn || in.class == clsLarge || in.class == clsSize {
				nv = 1
			}
			for t := 0; t < nv; t++ {
				v := 1 + (i*7+j*3+t*5)%(nVariants-1)
				if in.class == clsLarge {
					// only the variants whose cost is linear in the size of the tree
					v = []int{vPosEndAll, vWalkPaths, vPreorderBreak2, vInspectMaskA}[(i+j+t)%4]
				}
				b.Variant = uint8(v)
				add(b)
			}
			if b.Entry == eSplit {
				b.Variant = vSplitThenParse
				add(b)
			}
		}
	}
	pool = p
	return nil
}

func corruptText(r *rng, s string, inputs []input, corpus []int) string {
	if len(s) == 0 {
		return ";"
	}
	// split at crude token boundaries
	fields := strings.FieldsFunc(s, func(c rune) bool { return c == ' ' || c == '\n' || c == '\t' })
	if len(fields) == 0 {
		return s + ";"
	}
	junk := []string{"'", "\"", "`", "(", ")", ")", ",", ";", "1a", "SELECT", "FROM", "<", ">>", "/*", "--", "@", ".", "END", "\x00", "é", "[", "]", "AS", "''' x", "b\"\\"}
	n := 1 + r.intn(3)
	for ; n > 0; n-- {
		i := r.intn(len(fields))
		switch r.intn(10) {
		case 7, 8, 9: // a typo inside a word: transpose, drop, double or change one letter
			w := []byte(fields[i])
			if len(w) < 2 {
				continue
			}
			j := r.intn(len(w) - 1)
			switch r.intn(4) {
			case 0:
				w[j], w[j+1] = w[j+1], w[j]
			case 1:
				w = append(w[:j:j], w[j+1:]...)
			case 2:
				w = append(w[:j+1:j+1], w[j:]...)
			default:
				w[j] = "ETAOINSRHLDCUMFPGWYBVKXJQZ"[r.intn(26)]
			}
			fields[i] = string(w)
		case 0: // delete
			fields = append(fields[:i:i], fields[i+1:]...)
			if len(fields) == 0 {
				return ";"
			}
		case 1: // duplicate
			fields = append(fields[:i+1:i+1], fields[i:]...)
		case 2: // junk
			fields[i] = junk[r.intn(len(junk))]
		case 3: // truncate
			fields = fields[:i+1]
		case 4: // insert junk
			fields = append(fields[:i:i], append([]string{junk[r.intn(len(junk))]}, fields[i:]...)...)
		case 5: // join with another corpus text by ';' and a comment
			o := inputs[corpus[r.intn(len(corpus))]].text
			return strings.Join(fields, " ") + "; -- joined\n" + o
		case 6: // swap
			j := r.intn(len(fields))
			fields[i], fields[j] = fields[j], fields[i]
		}
	}
	seps := []string{" ", "\n", "  ", " /* c */ ", "\t"}
	var b strings.Builder
	for i, f := range fields {
		if i > 0 {
			b.WriteString(seps[r.intn(len(seps))])
		}
		b.WriteString(f)
	}
	return b.String()
}

// siblingText returns a text of the same length as s: a space and a newline swapped, or one
// letter replaced.
func siblingText(r *rng, s string) string {
	b := []byte(s)
	var sp, nl, al []int
	for i, c := range b {
		switch {
		case c == ' ':
			sp = append(sp, i)
		case c == '\n':
			nl = append(nl, i)
		case 'a' <= c && c <= 'z' || 'A' <= c && c <= 'Z':
			al = append(al, i)
		}
	}
	switch k := r.intn(3); {
	case k == 0 && len(sp) > 0 && len(nl) > 0:
		i, j := sp[r.intn(len(sp))], nl[r.intn(len(nl))]
		b[i], b[j] = b[j], b[i]
	case k <= 1 && len(sp) > 0:
		b[sp[r.intn(len(sp))]] = '\n'
	case len(al) > 0:
		i := al[r.intn(len(al))]
		b[i] = "etaoinshrdluETAOINSHRDLU"[r.intn(24)]
	case len(sp) > 0:
		b[sp[r.intn(len(sp))]] = '\n'
	}
	return string(b)
}

// collisionPairs returns, for each cheap checksum, pairs (A, B): same length, same
// checksum, both end in a syntax error, newlines at different offsets.
func collisionPairs(r *rng) [][2]string {
	sums := []func(string) uint32{
		func(s string) uint32 { h := fnv.New32a(); h.Write([]byte(s)); return h.Sum32() },
		func(s string) uint32 { h := fnv.New32(); h.Write([]byte(s)); return h.Sum32() },
		func(s string) uint32 { return crc32.ChecksumIEEE([]byte(s)) },
		func(s string) uint32 { return crc32.Checksum([]byte(s), crc32.MakeTable(crc32.Castagnoli)) },
		func(s string) uint32 { return adler32.Checksum([]byte(s)) },
		func(s string) uint32 {
			var x uint32
			for i := 0; i < len(s); i++ {
				x = x*31 + uint32(s[i])
			}
			return x
		},
	}
	tag := func(n uint32) string {
		b := make([]byte, 6)
		for i := range b {
			b[i] = 'a' + byte(n%26)
			n /= 26
		}
		return string(b)
	}
	var out [][2]string
	for _, sum := range sums {
		formA := func(t string) string { return "SELECT id, name  -- " + t + "\nFROM users\nWHERE id = )" }
		formB := func(t string) string { return "SELECT id, name /*" + t + "*/ FROM users WHERE\nid = )" }
		seen := map[uint32]uint32{}
		const n = 90000
		base := uint32(r.next())
		for i := uint32(0); i < n; i++ {
			seen[sum(formA(tag(base+i)))] = base + i
		}
		found := 0
		for i := uint32(0); i < 4*n && found < 2; i++ {
			t := tag(base ^ 0x5bd1e995 + i*7)
			if a, ok := seen[sum(formB(t))]; ok {
				out = append(out, [2]string{formA(tag(a)), formB(t)})
				found++
			}
		}
	}
	return out
}

var contextKeywords = []struct{ word, natural string }{
	{"SELECT", "# 1"}, {"FROM", "SELECT 1 # t"}, {"WHERE", "SELECT 1 FROM t # true"}, {"END", "SELECT CASE WHEN a THEN 1 ELSE 2 # FROM t"},
	{"AS", "SELECT 1 # x"}, {"AND", "SELECT a # b"}, {"NULL", "SELECT #"}, {"TRUE", "SELECT #"}, {"CASE", "SELECT # WHEN a THEN 1 END"},
	{"IN", "SELECT a # (1, 2)"}, {"ON", "SELECT 1 FROM a JOIN b # a.x = b.x"}, {"JOIN", "SELECT 1 FROM a # b ON true"}, {"BY", "SELECT 1 FROM t ORDER # a"},
	{"CREATE", "# TABLE t (a INT64) PRIMARY KEY (a)"}, {"NOT", "SELECT # a"}, {"UNION", "SELECT 1 # ALL SELECT 2"}, {"LIMIT", "SELECT 1 FROM t # 1"},
	{"SET", "UPDATE t # a = 1 WHERE true"}, {"INTO", "INSERT # t (a) VALUES (1)"}, {"CAST", "SELECT #(a AS INT64)"}, {"ARRAY", "SELECT #<INT64>[]"},
}

func oddCase(r *rng, w string) string {
	b := []byte(strings.ToLower(w))
	for i := range b {
		if r.intn(2) == 0 {
			b[i] = b[i] - 'a' + 'A'
		}
	}
	return string(b)
}

type word struct{ lo, hi int }

// scanWords returns the identifier-like words of s outside quotes and comments, the string
// literals, and the plain spaces.
func scanWords(s string) (words []word, strs []word, spaces []int) {
	i := 0
	for i < len(s) {
		c := s[i]
		switch {
		case c == '\'' || c == '"' || c == '`':
			j := i + 1
			for j < len(s) && s[j] != c {
				if s[j] == '\\' {
					j++
				}
				j++
			}
			if j < len(s) && c != '`' {
				strs = append(strs, word{i, j + 1})
			}
			i = j + 1
		case c == '-' && i+1 < len(s) && s[i+1] == '-', c == '#':
			for i < len(s) && s[i] != '\n' {
				i++
			}
		case c == '/' && i+1 < len(s) && s[i+1] == '*':
			j := strings.Index(s[i+2:], "*/")
			if j < 0 {
				i = len(s)
			} else {
				i += j + 4
			}
		case c == '_' || 'a' <= c && c <= 'z' || 'A' <= c && c <= 'Z':
			j := i
			for j < len(s) && (s[j] == '_' || 'a' <= s[j] && s[j] <= 'z' || 'A' <= s[j] && s[j] <= 'Z' || '0' <= s[j] && s[j] <= '9') {
				j++
			}
			words = append(words, word{i, j})
			i = j
		case c == ' ':
			spaces = append(spaces, i)
			i++
		default:
			i++
		}
	}
	return
}

// normSibling rewrites one place of s into a differently spelled form.
func normSibling(r *rng, s string) string {
	words, strs, spaces := scanWords(s)
	for tries := 0; tries < 6; tries++ {
		switch r.intn(11) {
		case 6: // CR LF line endings
			if !strings.Contains(s, "\n") {
				continue
			}
			return strings.ReplaceAll(s, "\n", "\r\n")
		case 7: // a byte-order mark, or tabs / form feeds / vertical tabs for spaces
			if r.intn(2) == 0 {
				return "\xef\xbb\xbf" + s
			}
			if len(spaces) == 0 {
				continue
			}
			b := []byte(s)
			for _, i := range spaces {
				if r.intn(3) == 0 {
					b[i] = "\t\f\v\r"[r.intn(4)]
				}
			}
			return string(b)
		case 8: // a non-ASCII letter, an invalid UTF-8 byte or a NUL inside a word
			if len(words) == 0 {
				continue
			}
			w := words[r.intn(len(words))]
			ins := []string{"é", "ß", "日本", "\xff", "\xc3", "\x00", "\u2028", "\u00a0"}[r.intn(8)]
			m := w.lo + r.intn(w.hi-w.lo+1)
			return s[:m] + ins + s[m:]
		case 9: // the same inside a string literal or a comment
			ins := []string{"é", "\xff\xfe", "\x00", "\r", "\u2029", "𝔘", "\u00a0", "\u00ad", "\u0085", "\\xa0\\xad", "\\u00a0"}[r.intn(11)]
			if len(strs) > 0 && r.intn(2) == 0 {
				w := strs[r.intn(len(strs))]
				return s[:w.lo+1] + ins + s[w.lo+1:]
			}
			return s + " -- c" + ins + "\n/* " + ins + " */"
		case 10: // hundreds of newlines, or one very long line
			if r.intn(2) == 0 {
				return strings.Repeat("\n", 200+r.intn(800)) + s + strings.Repeat("\r\n", r.intn(50))
			}
			return strings.ReplaceAll(s, "\n", " ") + strings.Repeat(" ", 3000+r.intn(3000)) + "-- end"
		case 0, 1: // a.b -> `a.b` (quote-merge two path components)
			var dotted []int
			for i := 0; i+1 < len(words); i++ {
				if words[i].hi+1 == words[i+1].lo && s[words[i].hi] == '.' {
					dotted = append(dotted, i)
				}
			}
			if len(dotted) == 0 {
				continue
			}
			i := dotted[r.intn(len(dotted))]
			return s[:words[i].lo] + "`" + s[words[i].lo:words[i+1].hi] + "`" + s[words[i+1].hi:]
		case 2: // quote one word
			if len(words) == 0 {
				continue
			}
			w := words[r.intn(len(words))]
			return s[:w.lo] + "`" + s[w.lo:w.hi] + "`" + s[w.hi:]
		case 3: // flip the case of one word
			if len(words) == 0 {
				continue
			}
			w := words[r.intn(len(words))]
			t := s[w.lo:w.hi]
			u := strings.ToUpper(t)
			if u == t {
				u = strings.ToLower(t)
			}
			if r.intn(3) == 0 && len(t) > 1 {
				u = strings.ToUpper(t[:1]) + strings.ToLower(t[1:])
			}
			return s[:w.lo] + u + s[w.hi:]
		case 4: // another quote style for a string literal
			if len(strs) == 0 {
				continue
			}
			w := strs[r.intn(len(strs))]
			body := s[w.lo+1 : w.hi-1]
			if strings.ContainsAny(body, "'\"\\\n") || w.hi-w.lo < 2 {
				continue
			}
			q := byte('"')
			if s[w.lo] == '"' {
				q = '\''
			}
			return s[:w.lo] + string(q) + body + string(q) + s[w.hi:]
		case 5: // a comment where a space was
			if len(spaces) == 0 {
				continue
			}
			i := spaces[r.intn(len(spaces))]
			return s[:i] + " /*n*/ " + s[i+1:]
		}
	}
	return s
}

// largeText builds big or deeply nested inputs: statement lists of 8-200 KB joined from the
// corpus, long expression chains, deep parenthesis / array / struct-type nesting, very long
// identifiers and literals.
func largeText(r *rng, n int, inputs []input, corpus []int) (string, int) {
	var b strings.Builder
	if n%6 == 2 {
		// 8-60 statements, about a third of them with a syntax (not lexical) error, of very
		// different lengths: what a parallel or batched statement-list path needs
		broken := []string{"SELECT FROM", "SELECT 1 +", "CREATE TABLE (", "INSERT INTO t VALUES", "UPDATE t SET", "DELETE", "SELECT * FROM t WHERE", "DROP", "SELECT (1", "ALTER TABLE t ADD",
			"SELECT a, b, c, d, e, f, g, h FROM t1 JOIN t2 ON t1.a = t2.a JOIN t3 ON t3.b = t2.b WHERE t1.a IN (1, 2, 3, 4, 5, 6, 7) AND t2.c BETWEEN 1 AND GROUP BY"}
		cnt := 8 + r.intn(52)
		for i := 0; i < cnt; i++ {
			if r.intn(3) == 0 {
				b.WriteString(broken[r.intn(len(broken))])
			} else {
				in := inputs[corpus[r.intn(len(corpus))]]
				if in.entry == eParseExpr || strings.Contains(in.origin, "!bad") {
					b.WriteString("SELECT 1")
				} else {
					b.WriteString(strings.TrimRight(in.text, " \n\t;"))
				}
			}
			b.WriteString(";\n")
		}
		return b.String(), eParseStatements
	}
	sel := n % 6
	if sel == 3 {
		sel = 6 + (n/6)%3 // chain, parentheses, types in rotation
	}
	switch sel {
	case 0, 1: // long statement list
		target := []int{6 << 10, 16 << 10, 40 << 10}[(n/6+n)%3] + r.intn(4096)
		for b.Len() < target {
			in := inputs[corpus[r.intn(len(corpus))]]
			if in.entry == eParseExpr || strings.Contains(in.origin, "!bad") {
				continue
			}
			b.WriteString(strings.TrimRight(in.text, " \n\t;"))
			b.WriteString(";\n")
			if r.intn(40) == 0 {
				b.WriteString("-- a comment between statements\n")
			}
		}
		if r.intn(2) == 0 {
			b.WriteString("SELECT (") // a syntax error at the very end
		}
		return b.String(), eParseStatements
	case 6: // long binary chain
		b.WriteString("1")
		for i := 0; i < 500+r.intn(500); i++ {
			b.WriteString([]string{" + ", " * ", " - ", " AND ", " OR ", " || "}[r.intn(6)])
			fmt.Fprintf(&b, "c%d", i)
		}
		return b.String(), eParseExpr
	case 7: // deep parentheses
		d := 150 + r.intn(250)
		b.WriteString(strings.Repeat("(", d))
		b.WriteString("x")
		b.WriteString(strings.Repeat(")", d-r.intn(2)))
		return b.String(), eParseExpr
	case 8: // deep type nesting, ends in >> sequences
		d := 60 + r.intn(100)
		for i := 0; i < d; i++ {
			if i%2 == 0 {
				b.WriteString("ARRAY<")
			} else {
				b.WriteString("STRUCT<f INT64, g ")
			}
		}
		b.WriteString("STRING(MAX)")
		b.WriteString(strings.Repeat(">", d))
		return b.String(), eParseType
	case 4: // long identifier, string, bytes and raw literals: two of them 17-48 KB, the others 2-8 KB
		first := true
		sz := func(big bool) int {
			if big && first {
				first = false
				return 17<<10 + r.intn(31<<10)
			}
			if big {
				return 66<<10 + r.intn(34<<10) // past a 64 KiB threshold too
			}
			return 2<<10 + r.intn(6<<10)
		}
		// the small big one is any kind; the 66-100 KB one is always a kind whose content has
		// backslashes (escaped string, escaped bytes, raw string) and comes second
		which, which2 := r.intn(3), 2+r.intn(3)
		if which2 <= which {
			which2 = which + 1
		}
		is := func(i int) bool { return which == i || which2 == i }
		id := strings.Repeat("LongIdentifier_", sz(is(0))/15)
		fmt.Fprintf(&b, "SELECT %s, `%s`, '%s', b\"%s\", r'%s' FROM t WHERE x = '\\x41\\u00e9%s'", id, strings.Repeat("quoted ident ", sz(is(1))/13),
			strings.Repeat("s\\n", sz(is(2))/2), strings.Repeat("\\x00b", sz(is(3))/2), strings.Repeat("raw\\", sz(is(4))/4)+"x", strings.Repeat("é", 600))
		return b.String(), eParseQuery
	default: // wide select list and IN list
		b.WriteString("SELECT ")
		for i := 0; i < 700+r.intn(800); i++ {
			fmt.Fprintf(&b, "t.col_%d AS a%d, ", i, i)
		}
		b.WriteString("1 FROM t WHERE k IN (")
		for i := 0; i < 1500; i++ {
			fmt.Fprintf(&b, "%d, ", i)
		}
		b.WriteString("0)")
		return b.String(), eParseQuery
	}
}

var churnTemplates = []struct {
	entry int
	text  string
}{
	{eParseQuery, "SELECT #, #.#, # AS # FROM # AS # JOIN # ON #.# = #.# WHERE # = @# AND # IN (1, 2) ORDER BY #"},
	{eParseQuery, "WITH # AS (SELECT # FROM #) SELECT #(#, #) FROM #, UNNEST(#) AS # GROUP BY # HAVING # > 0"},
	{eParseDDL, "CREATE TABLE # (# INT64 NOT NULL, # STRING(MAX), # BOOL, # TIMESTAMP) PRIMARY KEY (#, #), INTERLEAVE IN PARENT #"},
	{eParseDDL, "CREATE INDEX # ON # (#, # DESC) STORING (#, #)"},
	{eParseDDL, "ALTER TABLE # ADD COLUMN # STRING(10)"},
	{eParseDML, "INSERT INTO # (#, #, #) VALUES (1, '#', @#)"},
	{eParseDML, "UPDATE # SET # = # + 1, # = '#' WHERE # LIKE '#%' AND #.# IS NOT NULL"},
	{eParseDML, "DELETE FROM # WHERE # = @# OR # BETWEEN # AND #"},
	{eParseExpr, "#.#(#, # => 1) + CAST(# AS INT64) * #[OFFSET(#)]"},
	{eParseExpr, "CASE # WHEN # THEN # ELSE # END"},
	{eParseStatement, "SELECT # FROM # WHERE # = (SELECT MAX(#) FROM # WHERE # = #.#) -- #\n;"},
	{eParseQuery, "SELECT # FROM # WHERE # = ( -- #\n  #"},
	{eParseDDL, "CREATE TABLE # (# INT64, # # #) PRIMARY KEY (#)"},
}

// churnText instantiates a template with fresh identifiers (unique per n and position).
func churnText(r *rng, n int) (string, int) {
	t := churnTemplates[n%len(churnTemplates)]
	var b strings.Builder
	k := 0
	for i := 0; i < len(t.text); i++ {
		if t.text[i] != '#' {
			b.WriteByte(t.text[i])
			continue
		}
		k++
		// a unique word of 2..18 bytes, mixed case
		id := fmt.Sprintf("%c%x_%x", "abcdefghijklmnopqrstuvwxyzABCDEFGHIJKLMNOPQRSTUVWXYZ"[r.intn(52)], n, k)
		for pad := r.intn(8); pad > 0 && len(id) < 18; pad-- {
			id += string("xyzXYZ019_"[r.intn(10)])
		}
		b.WriteString(id)
	}
	return b.String(), t.entry
}

// ---- PRNG: one SplitMix64 stream per run --------------------------------------------------------

type rng struct{ s uint64 }

func newRNG(seed uint64) *rng { return &rng{s: seed} }

func (r *rng) next() uint64 {
	r.s += 0x9e3779b97f4a7c15
	return mix64(r.s)
}
func (r *rng) intn(n int) int {
	if n <= 0 {
		return 0
	}
	return int(r.next() % uint64(n))
}
func (r *rng) chance(num, den int) bool { return r.intn(den) < num }
