package main

// Replay files: a failing execution as explicit data (DESIGN §2.8) — inputs, plans,
// schedules as [task, yields] segments, gc fault steps.  Replaying needs nothing but the
// file and the tree under test; the expected outcomes are recomputed, one call per fresh
// process.

import (
	"encoding/json"
	"fmt"
	"os"
	"os/exec"
	"path/filepath"
	"runtime"
	"strconv"
	"strings"
)

type RFOp struct {
	Entry    string `json:"entry"`
	Variant  string `json:"variant"`
	Path     string `json:"path"`
	Input    int    `json:"input"` // index into ReplayFile.Inputs
	Twice    bool   `json:"twice,omitempty"`
	Scribble bool   `json:"scribble,omitempty"`
	Fresh    bool   `json:"fresh_copy,omitempty"`
	Shared   *int   `json:"shared,omitempty"`
}

type RFRun struct {
	Tasks  [][]RFOp `json:"tasks"`
	Shared []RFOp   `json:"shared,omitempty"`
	// [task, yields]: run task for that many yields; [task, n, op]: run task until the n-th
	// yield inside its operation number op
	Schedule [][]int64 `json:"schedule"`
	GC       []int64   `json:"gc_at_steps,omitempty"`
	Note     string    `json:"note,omitempty"`
}

type ReplayFile struct {
	Format     string   `json:"format"`
	Property   string   `json:"property"`
	Mode       string   `json:"mode"` // serial | burst
	Seed       uint64   `json:"seed"`
	RunIndex   int64    `json:"run_index"`
	Gomaxprocs int      `json:"gomaxprocs,omitempty"`
	Inputs     []string `json:"inputs"`
	Runs       []RFRun  `json:"runs"`
	Expect     failure  `json:"expect"`
	Diff       string   `json:"diff,omitempty"`
	Report     string   `json:"report,omitempty"` // race detector report (burst)
	Minimised  string   `json:"minimised,omitempty"`
	// Prefix: the violation needs the history of the worker process that found it (e.g. a
	// cache that must fill up first): the seeded bursts first, first+stride, ..., last are
	// regenerated from the seed and re-executed in one fresh process.
	Prefix   *SeededPrefix `json:"seeded_prefix,omitempty"`
	Identity string        `json:"identity,omitempty"`
}

type SeededPrefix struct {
	Seed    uint64 `json:"seed"`
	First   int64  `json:"first"`
	Stride  int64  `json:"stride"`
	Last    int64  `json:"last"`
	Corrupt int    `json:"corrupt"`
	Churn   int    `json:"churn"`
	Large   int    `json:"large"`
	// serial mode: the worker's reference re-verification slice (w % verify of verify)
	Worker int `json:"worker,omitempty"`
	Verify int `json:"verify,omitempty"`
	// the coverage-grown inputs that were part of the pool
	Extra []grownInput `json:"extra_inputs,omitempty"`
}

// refsViaChildren computes the whole reference table of the installed pool in fresh child
// processes (8 forward slices).
func refsViaChildren(dir string, args []string) (*refTable, error) {
	var parts []string
	errs := make(chan error, 8)
	for i := 0; i < 8; i++ {
		out := filepath.Join(dir, fmt.Sprintf("pref-%d.bin", i))
		parts = append(parts, out)
		go func(i int, out string) {
			cmd := exec.Command(os.Args[0], append([]string{"-mode", "ref", "-w", strconv.Itoa(i), "-of", "8", "-out", out}, args...)...)
			cmd.Stderr = os.Stderr
			errs <- cmd.Run()
		}(i, out)
	}
	for i := 0; i < 8; i++ {
		if err := <-errs; err != nil {
			return nil, err
		}
	}
	t, conflicts, err := loadRefs(parts)
	if err != nil {
		return nil, err
	}
	if len(conflicts) > 0 {
		return nil, fmt.Errorf("reference slices disagree")
	}
	return t, nil
}

const replayFormat = "memefish-verif-replay/1"

// a case is the in-memory form: pool-indexed plans with literal schedules
type runCase struct {
	plan  *Plan
	sched *Schedule
}

func opToRF(op OpPlan, inputs *[]string, inIdx map[uint32]int) RFOp {
	j, ok := inIdx[op.Key.Input]
	if !ok {
		j = len(*inputs)
		inIdx[op.Key.Input] = j
		*inputs = append(*inputs, pool.inputs[op.Key.Input].text)
	}
	o := RFOp{Entry: entryNames[op.Key.Entry], Variant: variantNames[op.Key.Variant], Path: pathOf(op.Key), Input: j,
		Twice: op.Twice, Scribble: op.Scribble, Fresh: op.Fresh}
	if op.Shared >= 0 {
		s := op.Shared
		o.Shared = &s
	}
	return o
}

func casesToRF(cases []runCase) ([]string, []RFRun) {
	var inputs []string
	inIdx := map[uint32]int{}
	var runs []RFRun
	for _, c := range cases {
		var r RFRun
		for _, t := range c.plan.Tasks {
			ops := []RFOp{}
			for _, op := range t.Ops {
				ops = append(ops, opToRF(op, &inputs, inIdx))
			}
			r.Tasks = append(r.Tasks, ops)
		}
		for _, k := range c.plan.Shared {
			r.Shared = append(r.Shared, opToRF(OpPlan{Key: k, Shared: -1}, &inputs, inIdx))
		}
		r.Schedule = [][]int64{}
		if c.sched != nil {
			for _, s := range c.sched.Segs {
				if s.Op >= 0 {
					r.Schedule = append(r.Schedule, []int64{int64(s.Task), s.N, int64(s.Op)})
				} else {
					r.Schedule = append(r.Schedule, []int64{int64(s.Task), s.N})
				}
			}
			r.GC = c.sched.GC
		}
		runs = append(runs, r)
	}
	return inputs, runs
}

// installReplayPool replaces the pool by the inputs, paths and operations of a replay file
// and returns the cases.
func installReplayPool(rf *ReplayFile) ([]runCase, error) {
	p := poolT{opIdx: map[opKey]int32{}, byPath: map[uint8][]int32{}, byInput: map[uint32][]int32{}}
	for _, s := range rf.Inputs {
		p.inputs = append(p.inputs, input{text: s, origin: "replay"})
	}
	pathIdx := map[string]uint8{}
	conv := func(o RFOp) (OpPlan, error) {
		e := entryByName(o.Entry)
		v := -1
		for i, n := range variantNames {
			if n == o.Variant {
				v = i
			}
		}
		if e < 0 || v < 0 || o.Input < 0 || o.Input >= len(p.inputs) {
			return OpPlan{}, fmt.Errorf("bad operation %+v", o)
		}
		pi, ok := pathIdx[o.Path]
		if !ok {
			if len(p.paths) >= 255 {
				return OpPlan{}, fmt.Errorf("too many paths")
			}
			pi = uint8(len(p.paths))
			pathIdx[o.Path] = pi
			p.paths = append(p.paths, o.Path)
		}
		k := opKey{Entry: uint8(e), Variant: uint8(v), Path: pi, Input: uint32(o.Input)}
		if _, dup := p.opIdx[k]; !dup {
			p.opIdx[k] = int32(len(p.ops))
			p.ops = append(p.ops, k)
		}
		op := OpPlan{Key: k, Twice: o.Twice, Scribble: o.Scribble, Fresh: o.Fresh, Shared: -1}
		if o.Shared != nil {
			op.Shared = *o.Shared
		}
		return op, nil
	}
	var cases []runCase
	for _, r := range rf.Runs {
		pl := &Plan{}
		for _, t := range r.Tasks {
			var tp TaskPlan
			for _, o := range t {
				op, err := conv(o)
				if err != nil {
					return nil, err
				}
				tp.Ops = append(tp.Ops, op)
			}
			pl.Tasks = append(pl.Tasks, tp)
		}
		for _, o := range r.Shared {
			op, err := conv(o)
			if err != nil {
				return nil, err
			}
			pl.Shared = append(pl.Shared, op.Key)
		}
		sc := &Schedule{GC: r.GC}
		for _, s := range r.Schedule {
			switch len(s) {
			case 2:
				sc.Segs = append(sc.Segs, Segment{Task: int(s[0]), N: s[1], Op: -1})
			case 3:
				sc.Segs = append(sc.Segs, Segment{Task: int(s[0]), N: s[1], Op: int(s[2])})
			default:
				return nil, fmt.Errorf("bad schedule entry %v", s)
			}
		}
		cases = append(cases, runCase{plan: pl, sched: sc})
	}
	pool = p
	return cases, nil
}

func readReplay(path string) (*ReplayFile, error) {
	b, err := os.ReadFile(path)
	if err != nil {
		return nil, err
	}
	var rf ReplayFile
	if err := json.Unmarshal(b, &rf); err != nil {
		return nil, err
	}
	if rf.Format != replayFormat {
		return nil, fmt.Errorf("%s: not a %s file", path, replayFormat)
	}
	return &rf, nil
}

// freshRefs computes f(key) for every operation of the installed replay pool, each in its
// own fresh process (`-mode refone`), so that the expectation cannot be contaminated by
// history.
func freshRefs(file string) (*refTable, []string, error) {
	t := &refTable{e: make([]refEntry, len(pool.ops))}
	texts := make([]string, len(pool.ops))
	type res struct {
		i   int
		out []byte
		err error
	}
	ch := make(chan res, len(pool.ops))
	par := runtime.NumCPU()
	if par > 16 {
		par = 16
	}
	if par < 2 {
		par = 2
	}
	sem := make(chan struct{}, par)
	// each child gets a file with its own call only (a replay file of a long history has
	// megabytes of inputs that a child would parse for nothing)
	// next to the binary: that is the driver's scratch directory, removed with it
	tmp, err := os.MkdirTemp(filepath.Dir(os.Args[0]), "verif-refone-")
	if err != nil {
		if tmp, err = os.MkdirTemp("", "verif-refone-"); err != nil {
			return nil, nil, err
		}
	}
	defer os.RemoveAll(tmp)
	for i := range pool.ops {
		go func(i int) {
			sem <- struct{}{}
			defer func() { <-sem }()
			k := pool.ops[i]
			one := &ReplayFile{Format: replayFormat, Property: "C18", Mode: "serial", Inputs: []string{pool.inputs[k.Input].text},
				Runs: []RFRun{{Tasks: [][]RFOp{{{Entry: entryNames[k.Entry], Variant: variantNames[k.Variant], Path: pathOf(k), Input: 0}}}, Schedule: [][]int64{}}}}
			file := filepath.Join(tmp, strconv.Itoa(i)+".json")
			if err := writeJSON(file, one); err != nil {
				ch <- res{i, nil, err}
				return
			}
			cmd := exec.Command(os.Args[0], "-mode", "refone", "-file", file, "-k", "0")
			cmd.Stderr = os.Stderr
			out, err := cmd.Output()
			ch <- res{i, out, err}
		}(i)
	}
	for range pool.ops {
		r := <-ch
		if r.err != nil {
			return nil, nil, fmt.Errorf("refone %d: %v", r.i, r.err)
		}
		// first line: hash steps ; rest: text
		s := string(r.out)
		nl := strings.IndexByte(s, '\n')
		if nl < 0 {
			return nil, nil, fmt.Errorf("refone %d: bad output", r.i)
		}
		var h uint64
		var st int64
		if _, err := fmt.Sscanf(s[:nl], "%x %d", &h, &st); err != nil {
			return nil, nil, fmt.Errorf("refone %d: %v", r.i, err)
		}
		t.e[r.i] = refEntry{hash: h, steps: st, have: true}
		texts[r.i] = s[nl+1:]
	}
	return t, texts, nil
}

// failClass groups oracles for "the same violation".
func failClass(o string) string {
	switch o {
	case "O1", "O2":
		return "outcome"
	}
	return o
}

// runCases executes the cases in order and returns the first failure of class cls (any
// class if cls == ""), with the index of the run it occurred in.
func runCases(cases []runCase, refs *refTable, cls string, wantText bool) (*failure, int, *runResult) {
	for i, c := range cases {
		sc := c.sched
		if sc == nil {
			sc = &Schedule{}
		}
		res := execRun(c.plan, execOpts{lit: sc, refs: refs, wantText: wantText})
		for j := range res.Fails {
			f := res.Fails[j]
			if f.Oracle == "HARNESS" {
				continue
			}
			if cls == "" || failClass(f.Oracle) == cls {
				return &f, i, res
			}
		}
	}
	return nil, -1, nil
}
