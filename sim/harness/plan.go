package main

// Seeded generation of plans (DESIGN §2.3, swarm style): every run draws its own number of
// tasks, operation mix, contention mode, scheduler strategy, granularity and fault rates
// from the run's PRNG.

const (
	cSameCall   = iota // every task issues the same call (variants may differ)
	cSamePath          // same file path, different texts
	cSameText          // same text, different paths / entry points
	cDisjoint          // unrelated calls
	cSharedRO          // one parsed result shared read-only by all tasks
	cSameFamily        // texts derived from one source (same length / same prefix), same paths
	cRareSite          // calls that all execute one rarely executed yield site of the library
	nContention
)

var contentionNames = []string{"same-call", "same-path", "same-text", "disjoint", "shared-read-only", "same-family", "rare-site"}

type planInfo struct {
	Contention int
	Cfg        stratCfg
	Hammer     bool
}

// genBurstPlan is genPlan for the -race bursts: one burst in 60 is a *hammer*: 4-8 tasks
// each issue 20-50 calls drawn from a handful of related operations (what a stress test
// does: sustained contention on the same few inputs), the others are ordinary plans.
func genBurstPlan(r *rng, refs *refTable) (*Plan, planInfo) {
	// one burst in 100: the SAME expensive call (one of the 2 % most expensive operations of
	// the pool: the large inputs) issued twice by each of 3-4 tasks at once - what a
	// size-triggered code path with shared state needs
	if refs != nil && r.chance(1, 100) {
		if h := refs.heavy(); len(h) > 0 {
			k := pool.ops[h[r.intn(len(h))]]
			p := &Plan{}
			for t, n := 0, 3+r.intn(2); t < n; t++ {
				p.Tasks = append(p.Tasks, TaskPlan{Ops: []OpPlan{{Key: k, Shared: -1, Fresh: t%2 == 1}, {Key: k, Shared: -1}}})
			}
			return p, planInfo{Contention: cSameCall, Hammer: true}
		}
	}
	if !r.chance(1, 60) {
		return genPlan(r, refs)
	}
	if p, info, ok := hammerPlan(r, refs, 4+r.intn(5), 20, 30); ok {
		return p, info
	}
	return genPlan(r, refs)
}

// hammerPlan: nTasks tasks each issue minOps..minOps+spanOps calls drawn from a handful of
// related, preferably expensive (failing, multi-line) operations.
func hammerPlan(r *rng, refs *refTable, nTasks, minOps, spanOps int) (*Plan, planInfo, bool) {
	var info planInfo
	p := &Plan{}
	if refs == nil {
		return nil, info, false
	}
	var cand []int32
	switch r.intn(3) {
	case 0:
		if refs != nil && len(refs.rareSites) > 0 {
			info.Contention = cRareSite
			cand = refs.siteList[refs.rareSites[r.intn(len(refs.rareSites))]]
		}
	case 1:
		info.Contention = cSameFamily
		if l := pool.byClass[clsSibling]; len(l) > 0 {
			cand = pool.byFamily[pool.inputs[pool.ops[l[r.intn(len(l))]].Input].family]
		}
	default:
		info.Contention = cSamePath
		cand = pool.byPath[uint8(r.intn(3))]
	}
	if len(cand) == 0 {
		return nil, info, false
	}
	// a handful of operations, the expensive ones (large failing inputs) preferred
	heavy := r.chance(1, 4)
	if heavy {
		minOps, spanOps = 3, 4
	}
	var set []opKey
	for tries := 0; tries < 64 && len(set) < 4+r.intn(5); tries++ {
		k := pool.ops[cand[r.intn(len(cand))]]
		if n, ok := refs.steps(k); ok && (n < 3000 && tries < 40 || n > 150_000 && !heavy) {
			continue // prefer the bigger (failing, multi-line) inputs; the huge ones only in a heavy hammer
		}
		set = append(set, k)
	}
	if len(set) == 0 {
		return nil, info, false
	}
	for t := 0; t < nTasks; t++ {
		var tp TaskPlan
		n := minOps + r.intn(spanOps)
		for i := 0; i < n; i++ {
			tp.Ops = append(tp.Ops, OpPlan{Key: set[r.intn(len(set))], Shared: -1, Fresh: r.chance(1, 2)})
		}
		p.Tasks = append(p.Tasks, tp)
	}
	info.Hammer = true
	return p, info, true
}

func genPlan(r *rng, refs *refTable) (*Plan, planInfo) {
	// one serial run in 50 is a hammer too: sustained contention on a few related calls,
	// preempted where the code is rare
	if refs != nil && r.chance(1, 50) {
		if p, info, ok := hammerPlan(r, refs, 2+r.intn(3), 8, 14); ok {
			c := &info.Cfg
			c.Gran = 0xff
			if r.chance(2, 3) {
				c.Kind, c.P = sRare, []int{200, 1000, 5000}[r.intn(3)]
			} else {
				c.Kind, c.P = sRandom, []int{50, 200, 1000, 4000}[r.intn(4)]
			}
			return p, info
		}
	}
	var info planInfo
	p := &Plan{}
	nTasks := 2 + r.intn(3)
	if r.chance(1, 6) {
		nTasks = 5 + r.intn(2)
	}
	maxOps := 1 + r.intn(4)
	if r.chance(1, 8) {
		maxOps = 8
	}
	scribbleOn := r.chance(1, 2)
	twiceOn := r.chance(1, 2)
	freshOn := r.chance(1, 2)
	info.Contention = r.intn(nContention)

	// per-run input-class weights (swarm): 0 switches a class off for this run
	var weights [nClasses]int
	wsum := 0
	for c := range weights {
		if len(pool.byClass[c]) == 0 {
			continue
		}
		switch r.intn(4) {
		case 0:
			weights[c] = 0
		case 1:
			weights[c] = 1
		default:
			weights[c] = 1 + r.intn(8)
		}
		if c == clsLarge {
			// expensive: in a quarter of the runs, and then rarely
			if weights[c] > 1 || r.intn(6) != 0 {
				weights[c] = 0
			}
		}
		wsum += weights[c]
	}
	if wsum == 0 {
		for c := range weights {
			if len(pool.byClass[c]) > 0 {
				weights[c] = 1
				wsum++
			}
		}
	}
	pickOp := func() opKey {
		x := r.intn(wsum)
		for c := range weights {
			if x < weights[c] {
				l := pool.byClass[c]
				return pool.ops[l[r.intn(len(l))]]
			}
			x -= weights[c]
		}
		return pool.ops[r.intn(len(pool.ops))]
	}
	var cand []int32
	switch info.Contention {
	case cSameCall:
		k := pickOp()
		cand = nil
		for _, j := range pool.byInput[k.Input] {
			o := pool.ops[j]
			if o.Entry == k.Entry && o.Path == k.Path {
				cand = append(cand, j)
			}
		}
	case cSamePath:
		cand = pool.byPath[uint8(r.intn(3))]
	case cSameText:
		k := pickOp()
		cand = pool.byInput[k.Input]
	case cRareSite:
		if refs != nil && len(refs.rareSites) > 0 {
			site := refs.rareSites[r.intn(len(refs.rareSites))]
			cand = refs.siteList[site]
		}
	case cSameFamily:
		// a family with at least two members if one can be found quickly
		for tries := 0; tries < 30; tries++ {
			l := pool.byClass[clsSibling]
			if len(l) == 0 {
				break
			}
			k := pool.ops[l[r.intn(len(l))]]
			cand = pool.byFamily[pool.inputs[k.Input].family]
			if len(cand) > 0 {
				break
			}
		}
	case cSharedRO:
		// a parse entry whose result has nodes
		var k opKey
		for tries := 0; tries < 20; tries++ {
			k = pickOp()
			if k.Entry != eSplit && k.Entry != eLex {
				break
			}
		}
		if k.Entry == eSplit || k.Entry == eLex {
			info.Contention = cDisjoint
			break
		}
		base := k
		base.Variant = vBase
		p.Shared = []opKey{base}
		for _, j := range pool.byInput[k.Input] {
			o := pool.ops[j]
			if o.Entry == k.Entry && o.Path == k.Path {
				cand = append(cand, j)
			}
		}
	}
	for t := 0; t < nTasks; t++ {
		var tp TaskPlan
		n := 1 + r.intn(maxOps)
		for i := 0; i < n; i++ {
			var op OpPlan
			op.Shared = -1
			if len(cand) > 0 && (info.Contention != cSamePath || true) {
				op.Key = pool.ops[cand[r.intn(len(cand))]]
			} else {
				op.Key = pickOp()
			}
			if info.Contention == cSharedRO {
				if r.chance(3, 4) {
					op.Shared = 0
				}
			}
			// a little unrelated traffic in every contention mode
			if info.Contention != cSharedRO && r.chance(1, 6) {
				op.Key = pickOp()
			}
			if twiceOn && r.chance(1, 6) {
				op.Twice = true
			}
			if freshOn && r.chance(1, 2) {
				op.Fresh = true
			}
			if scribbleOn && op.Shared < 0 && r.chance(1, 3) {
				op.Scribble = true
			}
			tp.Ops = append(tp.Ops, op)
		}
		p.Tasks = append(p.Tasks, tp)
	}

	// bound the cost of one run (a plan of large inputs only would take a minute): drop the
	// most expensive operations until the expected solo yields fit the budget
	if refs != nil {
		budget := int64(300_000)
		if r.chance(1, 25) {
			budget = 2_000_000 // the occasional heavy run
		}
		cost := func(op OpPlan) int64 {
			n, _ := refs.steps(op.Key)
			if op.Twice {
				n *= 2
			}
			return n
		}
		var total int64
		for _, t := range p.Tasks {
			for _, op := range t.Ops {
				total += cost(op)
			}
		}
		for total > budget {
			bt, bo, bc := -1, -1, int64(0)
			for ti, t := range p.Tasks {
				for oi, op := range t.Ops {
					if c := cost(op); c > bc && (len(t.Ops) > 1 || len(p.Tasks) > 2) {
						bt, bo, bc = ti, oi, c
					}
				}
			}
			if bt < 0 {
				break
			}
			ops := p.Tasks[bt].Ops
			p.Tasks[bt].Ops = append(ops[:bo:bo], ops[bo+1:]...)
			if len(p.Tasks[bt].Ops) == 0 {
				p.Tasks = append(p.Tasks[:bt:bt], p.Tasks[bt+1:]...)
			}
			total -= bc
		}
	}

	// scheduler strategy and faults
	c := &info.Cfg
	c.Kind = r.intn(nStrats)
	ps := []int{2, 3, 5, 8, 16, 50, 200, 1000, 4000}
	c.P = ps[r.intn(len(ps))]
	if c.Kind == sRoundRobin {
		c.P = 1 + r.intn(300)
	}
	if c.Kind == sRare {
		c.P = []int{2, 10, 50, 200, 1000}[r.intn(5)]
	}
	c.D = 1 + r.intn(4)
	grans := []uint8{0xff, 0xff, 1 | 2 | 8, 8, 1}
	c.Gran = grans[r.intn(len(grans))]
	if c.Kind == sRare {
		c.Gran = 0xff
	}
	if r.chance(1, 3) {
		c.GCDen = 500 + r.intn(20000)
	}
	if r.chance(1, 3) {
		c.Stall = 2 + r.intn(6)
		c.StallS = int64(50 + r.intn(5000))
	}
	return p, info
}
