package main

// Coverage-guided growth of the input pool (`-mode grow`): for every corpus file, every
// prefix that ends at a token boundary, every single-token deletion and every replacement
// of a token by an identifier is parsed solo with the yield sites recorded; a candidate is
// kept iff it executes a yield site that neither the corpus nor an earlier candidate of the
// same shard executes.  This is how the workload reaches the rarely executed corners of the
// library (error paths behind a particular syntactic prefix) - the "probe stuck at zero means
// the workload must change" rule applied mechanically.  The result is a pure function of the
// corpus; it is computed once per check by 16 shard processes and handed to every other
// process as a file.

import (
	"encoding/json"
	"os"

	rt "github.com/cloudspannerecosystem/memefish/verifsimrt"
)

type grownInput struct {
	Text  string `json:"text"`
	Entry int    `json:"entry"`
	Src   int    `json:"src"`  // index of the corpus input it was derived from
	Kind  string `json:"kind"` // truncate | delete | replace
	New   int    `json:"new_sites"`
}

// tokenSpans splits s into crude tokens: words, numbers, quoted literals, single punctuation
// characters; whitespace and comments separate tokens.
func tokenSpans(s string) []word {
	var out []word
	i := 0
	for i < len(s) {
		c := s[i]
		switch {
		case c == ' ' || c == '\n' || c == '\t' || c == '\r':
			i++
		case c == '\'' || c == '"' || c == '`':
			j := i + 1
			for j < len(s) && s[j] != c {
				if s[j] == '\\' {
					j++
				}
				j++
			}
			if j >= len(s) {
				j = len(s) - 1
			}
			out = append(out, word{i, j + 1})
			i = j + 1
		case c == '-' && i+1 < len(s) && s[i+1] == '-', c == '#':
			for i < len(s) && s[i] != '\n' {
				i++
			}
		case c == '/' && i+1 < len(s) && s[i+1] == '*':
			j := i + 2
			for j+1 < len(s) && !(s[j] == '*' && s[j+1] == '/') {
				j++
			}
			i = j + 2
			if i > len(s) {
				i = len(s)
			}
		case c == '_' || c == '@' || 'a' <= c && c <= 'z' || 'A' <= c && c <= 'Z' || '0' <= c && c <= '9':
			j := i + 1
			for j < len(s) && (s[j] == '_' || 'a' <= s[j] && s[j] <= 'z' || 'A' <= s[j] && s[j] <= 'Z' || '0' <= s[j] && s[j] <= '9') {
				j++
			}
			out = append(out, word{i, j})
			i = j
		default:
			out = append(out, word{i, i + 1})
			i++
		}
	}
	return out
}

// coverOf parses text with entry e solo and marks the yield sites it executes.
func coverOf(e int, text string, cover []uint8) {
	c := &sim{countOnly: true, cover: cover}
	old := rt.Hook
	rt.Hook = c
	sub := callEntry(e, "g.sql", text)
	// unparse too: SQL() of odd trees is part of the workload
	h := newHashSink()
	writeBase(h, sub)
	rt.Hook = old
}

func modeGrow() error {
	if err := setupPool(); err != nil {
		return err
	}
	base := make([]uint8, rt.NumSites+1)
	var corpus []int
	for i, in := range pool.inputs {
		if in.class == clsCorpus {
			corpus = append(corpus, i)
			coverOf(in.entry, in.text, base)
		}
	}
	cur := make([]uint8, rt.NumSites+1)
	var kept []grownInput
	n := 0
	for _, ci := range corpus {
		in := pool.inputs[ci]
		spans := tokenSpans(in.text)
		if len(spans) > 400 {
			spans = spans[:400]
		}
		for j, sp := range spans {
			cands := []struct{ kind, text string }{
				{"truncate", in.text[:sp.hi]},
				{"delete", in.text[:sp.lo] + in.text[sp.hi:]},
			}
			if *fM > 0 {
				cands = append(cands, struct{ kind, text string }{"replace", in.text[:sp.lo] + "zz" + in.text[sp.hi:]})
			}
			if j == len(spans)-1 {
				cands = cands[1:] // truncating after the last token is the file itself
			}
			for _, cd := range cands {
				n++
				if n%*fOf != *fW {
					continue
				}
				for i := range cur {
					cur[i] = 0
				}
				coverOf(in.entry, cd.text, cur)
				nw := 0
				for s, v := range cur {
					if v != 0 && base[s] == 0 {
						nw++
						base[s] = 1
					}
				}
				if nw > 0 {
					kept = append(kept, grownInput{Text: cd.text, Entry: in.entry, Src: ci, Kind: cd.kind, New: nw})
				}
			}
		}
	}
	b, err := json.Marshal(kept)
	if err != nil {
		return err
	}
	return os.WriteFile(*fOut, b, 0o644)
}

// modeGrowMerge: the shards each used their own baseline, so they rediscover the same sites;
// one greedy pass over their concatenated output (the rarest finds first: candidates that
// added the fewest sites tend to be the specific ones) keeps a candidate iff it still adds
// a site.
func modeGrowMerge() error {
	if err := setupPool(); err != nil { // -extra holds the concatenated shard outputs
		return err
	}
	cands := extraInputs
	base := make([]uint8, rt.NumSites+1)
	for _, in := range pool.inputs {
		if in.class == clsCorpus {
			coverOf(in.entry, in.text, base)
		}
	}
	cur := make([]uint8, rt.NumSites+1)
	var kept []grownInput
	for _, g := range cands {
		for i := range cur {
			cur[i] = 0
		}
		coverOf(g.Entry, g.Text, cur)
		nw := 0
		for s, v := range cur {
			if v != 0 && base[s] == 0 {
				nw++
				base[s] = 1
			}
		}
		if nw > 0 {
			g.New = nw
			kept = append(kept, g)
		}
	}
	b, err := json.Marshal(kept)
	if err != nil {
		return err
	}
	return os.WriteFile(*fOut, b, 0o644)
}

// loadExtra reads the merged output of the grow shards.
func loadExtra(path string) ([]grownInput, error) {
	b, err := os.ReadFile(path)
	if err != nil {
		return nil, err
	}
	var out []grownInput
	if err := json.Unmarshal(b, &out); err != nil {
		return nil, err
	}
	return out, nil
}
