// Command simrun is the deterministic simulator for property C18 of memefish
// (/verif/DESIGN.md §2).  It is built against an *instrumented scratch copy* of /repo's
// working tree.  One OS process = one batch.
package main

import (
	"encoding/binary"
	"encoding/hex"
	"encoding/json"
	"flag"
	"fmt"
	"os"
	"os/exec"
	"path/filepath"
	"runtime"
	"runtime/debug"
	"sort"
	"strings"
	"time"

	rt "github.com/cloudspannerecosystem/memefish/verifsimrt"
)

type stats struct {
	Mode          string         `json:"mode"`
	Worker        int            `json:"worker"`
	Gomaxprocs    int            `json:"gomaxprocs"`
	Runs          int64          `json:"runs"`
	Ops           int64          `json:"ops"`
	Steps         int64          `json:"steps"`
	Switches      int64          `json:"switches"`
	Overlapped    int64          `json:"overlapped_runs"`
	Faults        map[string]int `json:"faults_fired"`
	FaultsCfg     map[string]int `json:"faults_configured"`
	Strategies    map[string]int `json:"strategies"`
	Contention    map[string]int `json:"contention"`
	Granularity   map[string]int `json:"granularity"`
	Entries       map[string]int `json:"ops_by_entry"`
	Variants      map[string]int `json:"ops_by_variant"`
	Outcomes      map[string]int `json:"outcomes"`
	SitesCovered  int            `json:"sites_covered"`
	CoveredBits   string         `json:"covered_bits"` // hex bitmap of the yield sites this process executed
	SitesTotal    int            `json:"sites_total"`
	SwitchEdges   int            `json:"switch_edges"`
	Aborted       map[string]int `json:"aborted_runs"`
	Foreign       int64          `json:"foreign_goroutine_yields"`
	Infeasible    int            `json:"infeasible_segments"`
	RefChecked    int            `json:"ref_entries_rechecked"`
	RefTableHash  string         `json:"ref_table_hash"`
	PoolInputs    int            `json:"pool_inputs"`
	PoolOps       int            `json:"pool_ops"`
	WallS         float64        `json:"wall_s"`
	Failures      []foundFailure `json:"failures"`
	FailuresTotal int            `json:"failures_total"`
	Samples       []any          `json:"samples,omitempty"`
	MinimiseExecs int            `json:"minimise_execs"`
	Harness       []string       `json:"harness_trouble,omitempty"`
	poisoned      bool
	FirstIdx      int64 `json:"first_idx"`
	LastIdx       int64 `json:"last_idx"`
}

type foundFailure struct {
	RunIndex int64       `json:"run_index"`
	Fail     failure     `json:"fail"`
	Replay   *ReplayFile `json:"replay"`
	// Original is the case as it was found, before the in-process minimisation (whose
	// verdicts can be influenced by state left in this process by earlier runs)
	Original *ReplayFile `json:"original,omitempty"`
}

func newStats(mode string, w int) *stats {
	return &stats{Mode: mode, Worker: w, Gomaxprocs: runtime.GOMAXPROCS(0), Faults: map[string]int{}, FaultsCfg: map[string]int{},
		Strategies: map[string]int{}, Contention: map[string]int{}, Granularity: map[string]int{}, Entries: map[string]int{},
		Variants: map[string]int{}, Outcomes: map[string]int{}, Aborted: map[string]int{}}
}

var (
	fMode    = flag.String("mode", "", "ref | work | pairs | preempt | burst | replay | refone | info")
	fRoot    = flag.String("root", "", "root of the (scratch copy of the) tree under test: corpus is read from <root>/testdata/input")
	fSeed    = flag.Uint64("seed", 1, "VERIF_SEED")
	fCorrupt = flag.Int("corrupt", 200, "number of seeded corruptions in the pool")
	fChurn   = flag.Int("churn", 200, "number of identifier-churn inputs in the pool")
	fLarge   = flag.Int("large", 8, "number of large / deeply nested inputs in the pool")
	fExtra   = flag.String("extra", "", "file with coverage-grown inputs (output of -mode grow, merged)")
	fW       = flag.Int("w", 0, "worker index")
	fOf      = flag.Int("of", 1, "number of workers")
	fFrom    = flag.Int64("from", 0, "first run index (work: index = from + w + k*of)")
	fRuns    = flag.Int64("runs", 0, "number of runs (0: until -seconds)")
	fSeconds = flag.Float64("seconds", 0, "time budget in seconds")
	fRefs    = flag.String("refs", "", "comma separated reference part files")
	fOut     = flag.String("out", "", "output file")
	fSide    = flag.String("side", "", "per-run side file (binary)")
	fReverse = flag.Bool("reverse", false, "ref: reverse order")
	fFile    = flag.String("file", "", "replay file")
	fK       = flag.Int("k", 0, "refone: operation index")
	fVerify  = flag.Int("verify", 8, "work: re-verify 1/verify of the reference table before and after the runs (0: off)")
	fM       = flag.Int("m", 60, "pairs: number of sampled operations; preempt: number of pairs")
	fCap     = flag.Int("cap", 3000, "preempt: max preemption points per pair")
	fMaxFail = flag.Int("maxfail", 12, "stop collecting failures after this many")
	fMinRuns = flag.Int64("minruns", 0, "burst: run at least this many bursts even if -seconds is over (up to 6x -seconds)")
	fKeyRefs = flag.String("keyrefs", "", "replaycheck: JSON file mapping operation keys to reference hashes")
	fClass   = flag.String("class", "", "replaycheck: oracle class that must fail")
	fExtBlk  = flag.Bool("extblock", false, "the tree under test can block for real (channels, real sync, goroutines): let the watchdog grant the baton past blocked tasks")
	fBurst   = flag.Bool("burst", false, "export: a burst plan")
	fText    = flag.Bool("text", false, "refone: print the dump text")
)

func main() {
	flag.Parse()
	// collector timing is part of the schedule space: a quarter of the processes collect very
	// often (address reuse, finalizers, pool victim caches), the others rarely
	if (*fW+*fK)%4 == 1 {
		debug.SetGCPercent(15)
	} else {
		debug.SetGCPercent(200)
	}
	extBlockEnabled = *fExtBlk
	siteCover = make([]uint8, rt.NumSites+1)
	var err error
	switch *fMode {
	case "ref":
		err = modeRef()
	case "work":
		err = modeWork()
	case "pairs":
		err = modePairs()
	case "preempt":
		err = modePreempt()
	case "burst":
		err = modeBurst()
	case "replay":
		err = modeReplay()
	case "refone":
		err = modeRefOne()
	case "info":
		err = modeInfo()
	case "refmerge":
		err = modeRefMerge()
	case "export":
		err = modeExport()
	case "first":
		err = modeFirst()
	case "grow":
		err = modeGrow()
	case "growmerge":
		err = modeGrowMerge()
	case "trace":
		err = modeTrace()
	case "minimise":
		err = modeMinimise()
	case "replaycheck":
		err = modeReplayCheck()
	default:
		err = fmt.Errorf("unknown -mode %q", *fMode)
	}
	if err != nil {
		fmt.Fprintf(os.Stderr, "simrun: %v\n", err)
		os.Exit(2)
	}
}

func setupPool() error {
	if *fRoot == "" {
		return fmt.Errorf("need -root")
	}
	if *fExtra != "" {
		ex, err := loadExtra(*fExtra)
		if err != nil {
			return err
		}
		extraInputs = ex
	}
	return buildPool(*fRoot, *fSeed, *fCorrupt, *fChurn, *fLarge)
}

func setupRefs() (*refTable, error) {
	if *fRefs == "" {
		return nil, fmt.Errorf("need -refs")
	}
	t, conflicts, err := loadRefs(strings.Split(*fRefs, ","))
	if err != nil {
		return nil, err
	}
	if len(conflicts) > 0 {
		return nil, fmt.Errorf("reference parts conflict: %v", pool.ops[conflicts[0].idx])
	}
	for i, e := range t.e {
		if !e.have {
			return nil, fmt.Errorf("reference table incomplete: %s", pool.ops[i])
		}
	}
	return t, nil
}

func tableHash(t *refTable) string {
	h := newHashSink()
	for _, e := range t.e {
		h.num(int64(e.hash))
	}
	return fmt.Sprintf("%016x", h.sum())
}

func writeJSON(path string, v any) error {
	b, err := json.MarshalIndent(v, "", " ")
	if err != nil {
		return err
	}
	if path == "" {
		_, err = os.Stdout.Write(append(b, '\n'))
		return err
	}
	return os.WriteFile(path, b, 0o644)
}

func modeInfo() error {
	if err := setupPool(); err != nil {
		return err
	}
	byOrigin := map[string]int{}
	for _, in := range pool.inputs {
		byOrigin[classNames[in.class]]++
	}
	return writeJSON(*fOut, map[string]any{"inputs": len(pool.inputs), "by_origin": byOrigin, "ops": len(pool.ops), "paths": len(pool.paths),
		"sites": rt.NumSites, "fingerprint": fmt.Sprintf("%016x", poolFingerprint())})
}

func modeRef() error {
	if err := setupPool(); err != nil {
		return err
	}
	part := computeSlice(*fW, *fOf, *fReverse)
	if len(soloInvariants) > 0 {
		// a violated invariant inside a solo call: leave a note for the merge step
		writeJSON(*fOut+".inv", soloInvariants)
	}
	return writeRefPart(*fOut, part, *fW, *fOf, *fReverse)
}

// modeRefMerge merges the part files written by fresh `-mode ref` processes (forward and
// reverse slicings) into one table.  Two solo executions of the same call that disagree are
// an O2 violation.
func modeRefMerge() error {
	start := time.Now()
	if err := setupPool(); err != nil {
		return err
	}
	st := newStats("refmerge", 0)
	t, conflicts, err := loadRefs(strings.Split(*fRefs, ","))
	if err != nil {
		return err
	}
	for i, e := range t.e {
		if !e.have {
			return fmt.Errorf("reference table incomplete: %s", pool.ops[i])
		}
	}
	for _, c := range conflicts {
		f := failure{Oracle: "O2", Key: pool.ops[c.idx].String(), Got: c.b, Want: c.a,
			Detail: fmt.Sprintf("two solo executions of the same call in two fresh processes disagree (slice %d/%d reverse=%v vs slice %d/%d reverse=%v)",
				c.sliceA, c.ofA, c.revA, c.sliceB, c.ofB, c.revB)}
		// which of the two executions was influenced by its history is not known here: both
		// slices are exported, the driver keeps the one(s) that reproduce against fresh references
		st.addFailure(-1, f, refSliceCase(c.sliceB, c.ofB, c.revB, c.idx), t, true)
		f.Got, f.Want = f.Want, f.Got
		st.addFailure(-1, f, refSliceCase(c.sliceA, c.ofA, c.revA, c.idx), t, true)
	}
	st.RefChecked = len(t.e)
	st.RefTableHash = tableHash(t)
	all := map[int]refEntry{}
	for i, e := range t.e {
		all[i] = e
	}
	siteOpCount = t.siteOps // the merged statistics travel with the merged table
	siteOpList = t.siteList
	if err := writeRefPart(*fOut+".table", all, 0, 1, false); err != nil {
		return err
	}
	st.finish(start)
	return writeJSON(*fOut, st)
}

// modeExport writes the replay file of seeded run -from (no failure attached): used when a
// disagreement is found by comparing processes rather than inside one.
func modeExport() error {
	if err := setupPool(); err != nil {
		return err
	}
	refs, err := setupRefs()
	if err != nil {
		return err
	}
	var cases []runCase
	mode := "serial"
	if *fBurst {
		mode = "burst"
		r := runSeed(*fSeed^0xb0057, *fFrom)
		plan, _ := genBurstPlan(r, refs)
		for ti := range plan.Tasks {
			for oi := range plan.Tasks[ti].Ops {
				plan.Tasks[ti].Ops[oi].Scribble = false
			}
		}
		cases = []runCase{{plan: plan, sched: &Schedule{}}}
	} else {
		r := runSeed(*fSeed, *fFrom)
		plan, info := genPlan(r, refs)
		res := execRun(plan, execOpts{rng: r, cfg: info.Cfg, refs: refs})
		rec := res.Rec
		cases = []runCase{{plan: plan, sched: &rec}}
	}
	inputs, runs := casesToRF(cases)
	return writeJSON(*fOut, &ReplayFile{Format: replayFormat, Property: "C18", Mode: mode, Seed: *fSeed, RunIndex: *fFrom, Inputs: inputs, Runs: runs,
		Gomaxprocs: runtime.GOMAXPROCS(0)})
}

// verifySlice re-executes a slice of the reference table and reports disagreements (O2).
func verifySlice(st *stats, refs *refTable, slice, of int, reverse bool, when string) {
	got := computeSlice(slice, of, reverse)
	for j, e := range got {
		st.RefChecked++
		if e.hash != refs.e[j].hash {
			k := pool.ops[j]
			f := failure{Oracle: "O2", Task: 0, Op: 0, Key: k.String(), Got: e.hash, Want: refs.e[j].hash,
				Detail: "the same call executed solo " + when + " differs from the same call executed solo in a fresh process"}
			// replay: the slice as one single-task run, in the order it was executed
			st.addFailure(-1, f, refSliceCase(slice, of, reverse, j), refs, true)
		}
	}
}

// refSliceCase is the single-task run that re-executes the slice up to and including op j.
func refSliceCase(slice, of int, reverse bool, upto int) []runCase {
	var idxs []int
	for j := range pool.ops {
		if j%of == slice {
			idxs = append(idxs, j)
		}
	}
	if reverse {
		for a, b := 0, len(idxs)-1; a < b; a, b = a+1, b-1 {
			idxs[a], idxs[b] = idxs[b], idxs[a]
		}
	}
	var tp TaskPlan
	for _, j := range idxs {
		tp.Ops = append(tp.Ops, OpPlan{Key: pool.ops[j], Shared: -1})
		if j == upto {
			break
		}
	}
	return []runCase{{plan: &Plan{Tasks: []TaskPlan{tp}}, sched: &Schedule{}}}
}

func (st *stats) addFailure(idx int64, f failure, cases []runCase, refs *refTable, minimiseIt bool) {
	st.FailuresTotal++
	if len(st.Failures) >= *fMaxFail {
		return
	}
	note := ""
	var original *ReplayFile
	if minimiseIt {
		inputs, runs := casesToRF(cases)
		original = &ReplayFile{Format: replayFormat, Property: "C18", Mode: "serial", Seed: *fSeed, RunIndex: idx, Inputs: inputs, Runs: runs,
			Expect: f, Identity: identityOf(f)}
	}
	if len(st.Failures) >= 3 {
		// enough minimised examples from this process: the rest is recorded as found
		minimiseIt = false
	}
	if f.Oracle == "O6" {
		// a deadlock leaves simulated locks held for ever: this process is poisoned; the
		// recorded schedule is reported as it is and the worker stops
		minimiseIt = false
		st.poisoned = true
	}
	if minimiseIt {
		m := &minimiser{refs: refs, cls: failClass(f.Oracle), budget: 1500, deadline: time.Now().Add(20 * time.Second)}
		before := m.size(cases)
		cases = m.minimise(cases)
		st.MinimiseExecs += m.execs
		note = fmt.Sprintf("delta debugging: size %d -> %d in %d executions", before, m.size(cases), m.execs)
		// re-derive the failure and its diff from the minimised case
		if f2, _, _ := runCases(cases, refs, failClass(f.Oracle), false); f2 != nil {
			f = *f2
		}
	}
	inputs, runs := casesToRF(cases)
	rf := &ReplayFile{Format: replayFormat, Property: "C18", Mode: "serial", Seed: *fSeed, RunIndex: idx, Inputs: inputs, Runs: runs,
		Expect: f, Minimised: note, Identity: identityOf(f)}
	st.Failures = append(st.Failures, foundFailure{RunIndex: idx, Fail: f, Replay: rf, Original: original})
}

// identityOf is what a known finding is matched by: oracle class + call (entry/variant) +
// digest of the input text.
func identityOf(f failure) string {
	return fmt.Sprintf("%s|%s", failClass(f.Oracle), f.Key)
}

type sideWriter struct {
	f   *os.File
	buf []byte
}

func newSide(path string) (*sideWriter, error) {
	if path == "" {
		return &sideWriter{}, nil
	}
	f, err := os.Create(path)
	if err != nil {
		return nil, err
	}
	return &sideWriter{f: f}, nil
}

func (s *sideWriter) add(idx int64, res *runResult) {
	if s.f == nil {
		return
	}
	h := newHashSink()
	for _, o := range res.Outcomes {
		h.num(int64(o))
	}
	flags := uint64(0)
	if res.Overlapped {
		flags |= 1
	}
	if res.Aborted != "" {
		flags |= 2
	}
	if res.Degraded {
		flags |= 4
	}
	s.buf = binary.LittleEndian.AppendUint64(s.buf, uint64(idx))
	s.buf = binary.LittleEndian.AppendUint64(s.buf, res.LogHash)
	s.buf = binary.LittleEndian.AppendUint64(s.buf, h.sum())
	s.buf = binary.LittleEndian.AppendUint64(s.buf, res.SigHash)
	s.buf = binary.LittleEndian.AppendUint64(s.buf, flags)
	if len(s.buf) > 1<<16 {
		s.f.Write(s.buf)
		s.buf = s.buf[:0]
	}
}

func (s *sideWriter) close() {
	if s.f != nil {
		s.f.Write(s.buf)
		s.f.Close()
	}
}

func granName(g uint8) string {
	switch g {
	case 0xff:
		return "statement"
	case 1 | 2 | 8:
		return "function+loop"
	case 8:
		return "token"
	case 1:
		return "function"
	}
	return fmt.Sprintf("mask%d", g)
}

func (st *stats) account(plan *Plan, info *planInfo, res *runResult) {
	st.Runs++
	st.Ops += int64(res.Ops)
	st.Steps += res.Steps
	st.Switches += res.Switches
	if res.Overlapped {
		st.Overlapped++
	}
	for k, v := range res.Faults {
		st.Faults[k] += v
	}
	if res.Aborted != "" {
		st.Aborted[res.Aborted]++
	}
	if res.Degraded {
		st.Faults["degraded-run"]++
		st.Faults["external-block-grant"] += res.ExtEvents
	}
	st.Foreign += res.Foreign
	st.Infeasible += res.Infeasible
	if info != nil {
		st.Strategies[stratNames[info.Cfg.Kind]]++
		st.Contention[contentionNames[info.Contention]]++
		st.Granularity[granName(info.Cfg.Gran)]++
		if info.Cfg.GCDen > 0 {
			st.FaultsCfg["gc"]++
		}
		if info.Cfg.Stall > 0 {
			st.FaultsCfg["stall"]++
		}
		st.FaultsCfg["preempt"]++
	}
	for _, t := range plan.Tasks {
		for _, op := range t.Ops {
			st.Entries[entryNames[op.Key.Entry]]++
			st.Variants[variantNames[op.Key.Variant]]++
			if op.Scribble {
				st.FaultsCfg["scribble"]++
			}
			if op.Twice {
				st.FaultsCfg["repeat"]++
			}
			if op.Fresh {
				st.Faults["fresh-copy-input"]++
			}
		}
	}
	for _, f := range res.Fails {
		if f.Oracle == "HARNESS" {
			st.Harness = append(st.Harness, f.Detail)
		}
	}
}

func (st *stats) finish(start time.Time) {
	bits := make([]byte, (rt.NumSites+7)/8)
	for i, c := range siteCover[:rt.NumSites] {
		if c != 0 {
			st.SitesCovered++
			bits[i/8] |= 1 << (i % 8)
		}
	}
	st.CoveredBits = hex.EncodeToString(bits)
	st.SitesTotal = rt.NumSites
	st.SwitchEdges = len(switchEdge)
	st.PoolInputs, st.PoolOps = len(pool.inputs), len(pool.ops)
	st.WallS = time.Since(start).Seconds()
}

func runSeed(seed uint64, idx int64) *rng {
	return newRNG(mix64(seed*0x9e3779b97f4a7c15+uint64(idx)) ^ 0x5eed5eed)
}

func samplePlan(plan *Plan, info *planInfo, res *runResult, idx int64) any {
	inputs, runs := casesToRF([]runCase{{plan: plan, sched: &res.Rec}})
	for i := range inputs {
		if len(inputs[i]) > 160 {
			inputs[i] = inputs[i][:160] + "…"
		}
	}
	m := map[string]any{"run_index": idx, "inputs": inputs, "run": runs[0], "steps": res.Steps, "switches": res.Switches,
		"overlapped": res.Overlapped, "faults_fired": res.Faults}
	if info != nil {
		m["strategy"] = stratNames[info.Cfg.Kind]
		m["contention"] = contentionNames[info.Contention]
		m["granularity"] = granName(info.Cfg.Gran)
	}
	return m
}

// workCfg describes the seeded runs of one serial worker process.
type workCfg struct {
	seed          uint64
	first, stride int64
	maxRuns       int64     // 0: no limit
	deadline      time.Time // zero: none
	last          int64     // >= 0: stop after this run index (prefix replay)
	worker        int
	verify        int
	minimise      bool
}

const longSlots = 48

// workLoop is the body of a serial worker: re-verify a slice of the reference table, execute
// seeded runs, keep a few results alive across many runs and re-check them (O3 over long
// histories), re-verify the slice in reverse order.
func workLoop(st *stats, refs *refTable, c workCfg, side *sideWriter) {
	prefix := func(last int64) *SeededPrefix {
		return &SeededPrefix{Seed: c.seed, First: c.first, Stride: c.stride, Last: last, Corrupt: *fCorrupt, Churn: *fChurn, Large: *fLarge,
			Worker: c.worker, Verify: c.verify, Extra: extraInputs}
	}
	if c.verify > 0 {
		verifySlice(st, refs, c.worker%c.verify, c.verify, false, "at the start of a worker process")
	}
	long := make([]*retained, longSlots)
	longIdx := make([]int64, longSlots)
	checkLong := func(now int64) {
		for i, r := range long {
			if r == nil {
				continue
			}
			if h := structHash(r.sub.val, r.sub.err); h != r.h0 {
				f := failure{Oracle: "O3", Task: r.task, Op: r.op, Key: r.key.String(), Got: h, Want: r.h0,
					Detail: fmt.Sprintf("a value returned in seeded run %d and only held since then had changed by the time run %d had finished", longIdx[i], now)}
				st.FailuresTotal++
				if len(st.Failures) < *fMaxFail {
					st.Failures = append(st.Failures, foundFailure{RunIndex: now, Fail: f, Replay: &ReplayFile{Format: replayFormat, Property: "C18", Mode: "serial",
						Seed: c.seed, RunIndex: now, Inputs: []string{}, Runs: []RFRun{}, Expect: f, Identity: identityOf(f), Prefix: prefix(now)}})
				}
				long[i] = nil
			}
		}
	}
	idx := c.first
	st.FirstIdx = idx
	for n := int64(0); ; n++ {
		if c.maxRuns > 0 && n >= c.maxRuns {
			break
		}
		if c.last >= 0 && idx > c.last {
			break
		}
		if !c.deadline.IsZero() && (n&15) == 0 && time.Now().After(c.deadline) {
			break
		}
		r := runSeed(c.seed, idx)
		plan, info := genPlan(r, refs)
		if info.Hammer {
			st.Faults["hammer-run"]++
		}
		res := execRun(plan, execOpts{rng: r, cfg: info.Cfg, refs: refs})
		st.account(plan, &info, res)
		side.add(idx, res)
		if len(st.Samples) < 3 && res.Overlapped && res.Switches >= 2 && res.Switches <= 12 {
			st.Samples = append(st.Samples, samplePlan(plan, &info, res, idx))
		}
		for _, f := range res.Fails {
			if f.Oracle == "HARNESS" {
				continue
			}
			rec := res.Rec
			st.addFailure(idx, f, []runCase{{plan: plan, sched: &rec}}, refs, c.minimise)
			if k := len(st.Failures); k > 0 && st.Failures[k-1].RunIndex == idx {
				st.Failures[k-1].Replay.Prefix = prefix(idx)
			}
			break
		}
		// replay self-check: the recorded schedule, executed literally, must be the same
		// execution (same event log, same outcomes) - what every replay file relies on
		if n%64 == 5 && len(res.Fails) == 0 && res.Aborted == "" && !res.Degraded {
			rec := res.Rec
			res2 := execRun(plan, execOpts{lit: &rec, refs: refs})
			st.Faults["replay-selfcheck"]++
			if res2.LogHash != res.LogHash && len(res2.Fails) == 0 {
				st.Harness = append(st.Harness, fmt.Sprintf("literal replay of seeded run %d diverged from the seeded execution (event log %016x vs %016x)", idx, res2.LogHash, res.LogHash))
			}
		}
		if n%3 == 0 && len(res.Retained) > 0 {
			slot := int(n/3) % longSlots
			long[slot], longIdx[slot] = res.Retained[int(n)%len(res.Retained)], idx
			st.Faults["long-retained"]++
		}
		if n%128 == 127 {
			checkLong(idx)
		}
		st.LastIdx = idx
		idx += c.stride
		if len(st.Failures) >= *fMaxFail || st.poisoned {
			break
		}
	}
	if len(st.Failures) < *fMaxFail && !st.poisoned {
		checkLong(st.LastIdx)
	}
	if c.verify > 0 && len(st.Failures) < *fMaxFail && !st.poisoned {
		verifySlice(st, refs, c.worker%c.verify, c.verify, true, "after the simulated runs of a worker process, in reverse order")
	}
}

// modeWork: seeded serial runs.
func modeWork() error {
	start := time.Now()
	if err := setupPool(); err != nil {
		return err
	}
	refs, err := setupRefs()
	if err != nil {
		return err
	}
	st := newStats("serial", *fW)
	st.RefTableHash = tableHash(refs)
	side, err := newSide(*fSide)
	if err != nil {
		return err
	}
	c := workCfg{seed: *fSeed, first: *fFrom + int64(*fW), stride: int64(*fOf), maxRuns: *fRuns, last: -1, worker: *fW, verify: *fVerify, minimise: true}
	if *fRuns == 0 {
		c.deadline = start.Add(time.Duration(*fSeconds * float64(time.Second)))
	}
	workLoop(st, refs, c, side)
	side.close()
	st.finish(start)
	return writeJSON(*fOut, st)
}

// replayPrefixSerial re-executes everything a serial worker did up to and including the
// failing run (reference slice, seeded runs regenerated from the seed), in a fresh process,
// against a reference table computed by fresh child processes.
func replayPrefixSerial(rf *ReplayFile) error {
	p := rf.Prefix
	if *fRoot == "" {
		return fmt.Errorf("a seeded-prefix replay needs -root")
	}
	*fCorrupt, *fChurn, *fLarge = p.Corrupt, p.Churn, p.Large
	extraInputs = p.Extra
	if err := buildPool(*fRoot, p.Seed, p.Corrupt, p.Churn, p.Large); err != nil {
		return err
	}
	dir, err := os.MkdirTemp("", "prefix-")
	if err != nil {
		return err
	}
	defer os.RemoveAll(dir)
	childArgs := []string{"-root", *fRoot, "-seed", fmt.Sprint(p.Seed), "-corrupt", fmt.Sprint(p.Corrupt), "-churn", fmt.Sprint(p.Churn), "-large", fmt.Sprint(p.Large)}
	if len(p.Extra) > 0 {
		ef := filepath.Join(dir, "extra.json")
		if err := writeJSON(ef, p.Extra); err != nil {
			return err
		}
		childArgs = append(childArgs, "-extra", ef)
	}
	refs, err := refsViaChildren(dir, childArgs)
	if err != nil {
		return err
	}
	st := newStats("serial-prefix", p.Worker)
	*fMaxFail = 1
	workLoop(st, refs, workCfg{seed: p.Seed, first: p.First, stride: p.Stride, last: p.Last, worker: p.Worker, verify: p.Verify}, &sideWriter{})
	if len(st.Failures) > 0 {
		f := st.Failures[0]
		fmt.Printf("replayed %s (seeded prefix: runs %d, %d, ... %d of seed %d): oracle %s fails in run %d at task %d op %d: %s\n  %s\n",
			*fFile, p.First, p.First+p.Stride, p.Last, p.Seed, f.Fail.Oracle, f.RunIndex, f.Fail.Task, f.Fail.Op, f.Fail.Key, f.Fail.Detail)
		fmt.Printf("REPRODUCED oracle=%s same_class_as_recorded=%v (seeded prefix, %d runs)\n", f.Fail.Oracle, failClass(f.Fail.Oracle) == failClass(rf.Expect.Oracle), st.Runs)
		fmt.Printf("VIOLATION property=C18 replay=%s\n", *fFile)
		os.Exit(1)
	}
	fmt.Printf("NOT-REPRODUCED: seeded prefix of %d runs re-executed, every oracle held\n", st.Runs)
	return nil
}

// modePairs: ordered-pair sweep.  For every a of the sample: one task executing
// a, b1, a, b2, ... so that every b is checked right after a (and a after every b).
func modePairs() error {
	start := time.Now()
	if err := setupPool(); err != nil {
		return err
	}
	refs, err := setupRefs()
	if err != nil {
		return err
	}
	st := newStats("pairs", *fW)
	r := newRNG(mix64(*fSeed ^ 0x9a125))
	m := *fM
	if m > len(pool.ops) {
		m = len(pool.ops)
	}
	// a sample that favours equal paths: half of it from one shared path
	var sample []opKey
	seen := map[opKey]bool{}
	for len(sample) < m {
		var k opKey
		if len(sample)%2 == 0 {
			c := pool.byPath[uint8(len(sample)/2%3)]
			k = pool.ops[c[r.intn(len(c))]]
		} else {
			k = pool.ops[r.intn(len(pool.ops))]
		}
		if !seen[k] {
			seen[k] = true
			sample = append(sample, k)
		}
	}
	for ai := *fW; ai < len(sample); ai += *fOf {
		var tp TaskPlan
		for _, b := range sample {
			tp.Ops = append(tp.Ops, OpPlan{Key: sample[ai], Shared: -1}, OpPlan{Key: b, Shared: -1})
		}
		plan := &Plan{Tasks: []TaskPlan{tp}}
		res := execRun(plan, execOpts{lit: &Schedule{}, refs: refs})
		st.account(plan, nil, res)
		st.Strategies["ordered-pair-sweep"]++
		for _, f := range res.Fails {
			if f.Oracle == "HARNESS" {
				continue
			}
			st.addFailure(int64(ai), f, []runCase{{plan: plan, sched: &Schedule{}}}, refs, true)
			break
		}
		if len(st.Failures) >= *fMaxFail || st.poisoned {
			break
		}
	}
	st.finish(start)
	return writeJSON(*fOut, st)
}

// modeFirst: first-call sweep.  This process has not called the library yet: operation X
// (number -k of a list that covers every entry point, including those that never run the
// lexer) is the very first call, followed by a fixed probe list; every outcome is compared
// with the reference table.  Catches lazily initialised state whose content depends on which
// call came first in the process.
func modeFirst() error {
	start := time.Now()
	if err := setupPool(); err != nil {
		return err
	}
	refs, err := setupRefs()
	if err != nil {
		return err
	}
	st := newStats("first", *fK)
	r := newRNG(mix64(*fSeed ^ 0xf1257))
	byEntry := make([][]int32, nEntries)
	for j, k := range pool.ops {
		byEntry[k.Entry] = append(byEntry[k.Entry], int32(j))
	}
	per := *fM
	var list []opKey
	for e := 0; e < nEntries; e++ {
		for i := 0; i < per && len(byEntry[e]) > 0; i++ {
			list = append(list, pool.ops[byEntry[e][r.intn(len(byEntry[e]))]])
		}
	}
	var probes []opKey
	for e := 0; e < nEntries; e++ {
		if len(byEntry[e]) > 0 {
			probes = append(probes, pool.ops[byEntry[e][r.intn(len(byEntry[e]))]])
		}
	}
	for c := 0; c < nClasses; c++ {
		for i := 0; i < 3 && len(pool.byClass[c]) > 0; i++ {
			probes = append(probes, pool.ops[pool.byClass[c][r.intn(len(pool.byClass[c]))]])
		}
	}
	if *fK >= 0 && *fK < len(list) {
		tp := TaskPlan{Ops: []OpPlan{{Key: list[*fK], Shared: -1}}}
		for _, p := range probes {
			tp.Ops = append(tp.Ops, OpPlan{Key: p, Shared: -1})
		}
		plan := &Plan{Tasks: []TaskPlan{tp}}
		res := execRun(plan, execOpts{lit: &Schedule{}, refs: refs})
		st.account(plan, nil, res)
		st.Strategies["first-call-sweep"]++
		for _, f := range res.Fails {
			if f.Oracle == "HARNESS" {
				continue
			}
			// this process is no longer fresh: no in-process minimisation
			st.addFailure(int64(*fK), f, []runCase{{plan: plan, sched: &Schedule{}}}, refs, false)
			break
		}
	}
	st.finish(start)
	return writeJSON(*fOut, st)
}

// modePreempt: single-preemption sweep.  For a pair (A, B) and a yield i of A: run A up to
// its i-th yield, run B to completion, finish A.  The preemption points of A are the first
// and the last dynamic occurrence of every distinct yield site A executes (every code
// location of A is preempted at least once), plus evenly spaced points up to -cap.  B is A
// itself, a call with the same path, a call of the same input family, and an unrelated call.
func modePreempt() error {
	start := time.Now()
	if err := setupPool(); err != nil {
		return err
	}
	refs, err := setupRefs()
	if err != nil {
		return err
	}
	st := newStats("preempt", *fW)
	side, err := newSide(*fSide)
	if err != nil {
		return err
	}
	r := newRNG(mix64(*fSeed ^ 0x93e3))
	job := 0
	distinctSites := 0
	for ai := 0; ai < *fM; ai++ {
		// A: classes in rotation
		cl := pool.byClass[ai%nClasses]
		if len(cl) == 0 {
			cl = pool.byClass[clsCorpus]
		}
		a := pool.ops[cl[r.intn(len(cl))]]
		if ai%3 == 2 {
			// every third A: a call that fails on an input of some size (error paths build and
			// consult the state that successful parses never touch)
			for tries := 0; tries < 200; tries++ {
				j := r.intn(len(pool.ops))
				if refs.e[j].bad && len(pool.inputs[pool.ops[j].Input].text) >= 300 && pool.ops[j].Entry < eSplit {
					a = pool.ops[j]
					break
				}
			}
		}
		var bs []opKey
		bs = append(bs, a)
		if c := pool.byPath[a.Path]; len(c) > 0 {
			bs = append(bs, pool.ops[c[r.intn(len(c))]])
		}
		if c := pool.byFamily[pool.inputs[a.Input].family]; len(c) > 0 {
			bs = append(bs, pool.ops[c[r.intn(len(c))]])
		}
		bs = append(bs, pool.ops[r.intn(len(pool.ops))])
		// (the PRNG stream is the same in every worker; the work is split by schedule, below)
		tr := soloTrace(a)
		first := map[uint32]int{}
		last := map[uint32]int{}
		for i, sId := range tr {
			if _, ok := first[sId]; !ok {
				first[sId] = i
			}
			last[sId] = i
		}
		distinctSites += len(first)
		pts := map[int64]bool{}
		for _, i := range first {
			pts[int64(i)+2] = true // +1: the operation-boundary yield, +1: switch *at* that yield
		}
		for _, i := range last {
			pts[int64(i)+2] = true
		}
		n := int64(len(tr)) + 2
		// bound the work per A: an operation of a million yields gets a sample of its sites -
		// half of it the *rarest* sites (executed by the fewest operations of the pool: size
		// thresholds, error paths, special cases), half of it random
		if maxPts := int(4_000_000/n) + 16; len(pts) > maxPts {
			type cand struct {
				p    int64
				rare uint32
			}
			var cs []cand
			for p := range pts {
				rare := uint32(1 << 30)
				if i := int(p - 2); i >= 0 && i < len(tr) && int(tr[i]) < len(refs.siteOps) {
					rare = refs.siteOps[tr[i]]
					if rt.SiteClass[tr[i]]&16 != 0 {
						rare = 0 // in a function that mentions a package-level variable: always kept
					}
				}
				cs = append(cs, cand{p, rare})
			}
			sort.Slice(cs, func(i, j int) bool {
				if cs[i].rare != cs[j].rare {
					return cs[i].rare < cs[j].rare
				}
				return cs[i].p < cs[j].p
			})
			pts = map[int64]bool{}
			for i := 0; i < maxPts/2 && i < len(cs); i++ {
				pts[cs[i].p] = true
			}
			for len(pts) < maxPts {
				pts[cs[r.intn(len(cs))].p] = true
			}
		}
		if extra := int64(*fCap) - int64(len(pts)); extra > 0 && n < 100_000 {
			stride := n/extra + 1
			for i := int64(1); i <= n; i += stride {
				pts[i] = true
			}
		}
		var order []int64
		for p := range pts {
			order = append(order, p)
		}
		sort.Slice(order, func(i, j int) bool { return order[i] < order[j] })
		// histories: what task 0 did before A - a chain of 0, 1, 2, 4 or 8 calls (varies from
		// schedule to schedule) drawn from calls related to A (same family, same path, same
		// class) and a few unrelated ones: what fills, rotates and evicts small caches
		// the chain is made of DISTINCT inputs that end like A ends (with an error, or cleanly)
		// and are of A's kind (same family, then same class, then same path): what makes
		// "k misses of the same cache" likely; a few unrelated calls at the end
		var hpool []opKey
		aBad := refs.e[pool.opIdx[a]].bad
		seenIn := map[uint32]bool{a.Input: true}
		addH := func(l []int32, n int, matchBad bool) {
			for tries := 0; tries < 12*n && n > 0 && len(l) > 0; tries++ {
				j := l[r.intn(len(l))]
				k := pool.ops[j]
				if seenIn[k.Input] || (matchBad && refs.e[j].bad != aBad) || k.Entry >= eSplit {
					continue
				}
				// of A's size (within a factor of two): size thresholds treat them alike
				if la, lk := len(pool.inputs[a.Input].text), len(pool.inputs[k.Input].text); matchBad && tries < 8*n && (2*lk < la || lk > 2*la+64) {
					continue
				}
				seenIn[k.Input] = true
				hpool = append(hpool, k)
				n--
			}
		}
		addH(pool.byFamily[pool.inputs[a.Input].family], 4, true)
		addH(pool.byClass[pool.inputs[a.Input].class], 8, true)
		addH(pool.byPath[a.Path], 2, true)
		for _, c := range []int{clsEdge, clsCorrupt, clsSibling, clsChurn} {
			addH(pool.byClass[c], 1, false)
		}
		if os.Getenv("VERIF_DEBUG_SWEEP") != "" {
			g := 0
			for _, st := range tr {
				if rt.SiteClass[st]&16 != 0 {
					g++
				}
			}
			var lens []int
			for _, h := range hpool {
				lens = append(lens, len(pool.inputs[h.Input].text))
			}
			fmt.Fprintf(os.Stderr, "A#%d %s bad=%v len=%d yields=%d points=%d global-site-yields=%d hpool=%v\n", ai, a, aBad, len(pool.inputs[a.Input].text), len(tr), len(order), g, lens)
		}
		chainLens := []int{0, 1, 1, 2, 4, 4, 8}
		bs = append(bs, opKey{Entry: 255}) // marker: B = the oldest call of the history chain
		for _, b0 := range bs {
			for _, i := range order {
				job++
				t0 := TaskPlan{}
				aOp := 0
				b := b0
				if k := chainLens[job%len(chainLens)]; k > 0 && len(hpool) > 0 {
					off := r.intn(3) // the calls most like A come first in hpool
					for j := 0; j < k && j < len(hpool); j++ {
						t0.Ops = append(t0.Ops, OpPlan{Key: hpool[(off+j)%len(hpool)], Shared: -1})
						aOp++
					}
				}
				if b.Entry == 255 {
					if len(t0.Ops) > 0 {
						b = t0.Ops[0].Key // the reader asks for what the writer is about to evict
					} else {
						b = a
					}
				}
				if job%*fOf != *fW {
					continue
				}
				t0.Ops = append(t0.Ops, OpPlan{Key: a, Shared: -1, Fresh: job%3 == 0})
				plan := &Plan{Tasks: []TaskPlan{t0, {Ops: []OpPlan{{Key: b, Shared: -1, Fresh: job%2 == 0}}}}}
				sc := &Schedule{Segs: []Segment{{Task: 0, N: i, Op: aOp}, {Task: 1, N: 1 << 60, Op: -1}, {Task: 0, N: 1 << 60, Op: -1}}}
				res := execRun(plan, execOpts{lit: sc, refs: refs})
				st.account(plan, nil, res)
				side.add(int64(1)<<50|int64(ai)<<24|int64(job&0xffffff), res)
				st.Strategies["single-preemption-sweep"]++
				for _, f := range res.Fails {
					if f.Oracle == "HARNESS" {
						continue
					}
					st.addFailure(int64(job), f, []runCase{{plan: plan, sched: sc}}, refs, true)
					break
				}
				if len(st.Failures) >= *fMaxFail || st.poisoned {
					break
				}
			}
			if st.poisoned {
				break
			}
		}
		if len(st.Failures) >= *fMaxFail || st.poisoned {
			break
		}
	}
	st.Faults["preempt-sweep-distinct-sites"] = distinctSites
	side.close()
	st.finish(start)
	return writeJSON(*fOut, st)
}

// modeBurst: parallel bursts (binary built with -race).
func modeBurst() error {
	start := time.Now()
	if err := setupPool(); err != nil {
		return err
	}
	refs, err := setupRefs()
	if err != nil {
		return err
	}
	st := newStats("burst", *fW)
	deadline := start.Add(time.Duration(*fSeconds * float64(time.Second)))
	hardDeadline := start.Add(time.Duration(*fSeconds * 6 * float64(time.Second)))
	idx := *fFrom + int64(*fW)
	st.FirstIdx = idx
	for n := int64(0); ; n++ {
		if *fRuns > 0 && n >= *fRuns {
			break
		}
		if *fRuns == 0 && time.Now().After(deadline) && (n >= *fMinRuns || time.Now().After(hardDeadline)) {
			break
		}
		r := runSeed(*fSeed^0xb0057, idx)
		plan, info := genBurstPlan(r, refs)
		if info.Hammer {
			st.Faults["hammer-burst"]++
		}
		// bursts: no scribbling (a report with a library frame must be a library race)
		for ti := range plan.Tasks {
			for oi := range plan.Tasks[ti].Ops {
				plan.Tasks[ti].Ops[oi].Scribble = false
			}
		}
		fmt.Fprintf(os.Stderr, "BURST %d\n", idx)
		res := execBurst(plan, refs)
		st.account(plan, nil, res)
		st.Contention[contentionNames[info.Contention]]++
		st.Strategies["parallel-burst"]++
		if len(st.Samples) < 1 {
			st.Samples = append(st.Samples, samplePlan(plan, nil, res, idx))
		}
		for _, f := range res.Fails {
			if f.Oracle == "HARNESS" {
				continue
			}
			inputs, runs := casesToRF([]runCase{{plan: plan, sched: &Schedule{}}})
			st.FailuresTotal++
			if len(st.Failures) < *fMaxFail {
				st.Failures = append(st.Failures, foundFailure{RunIndex: idx, Fail: f, Replay: &ReplayFile{Format: replayFormat, Property: "C18",
					Mode: "burst", Seed: *fSeed, RunIndex: idx, Gomaxprocs: runtime.GOMAXPROCS(0), Inputs: inputs, Runs: runs, Expect: f, Identity: identityOf(f)}})
			}
			break
		}
		st.LastIdx = idx
		idx += int64(*fOf)
	}
	st.finish(start)
	return writeJSON(*fOut, st)
}

// modeRefOne: one operation of a replay file, solo, first thing in a fresh process.
func modeRefOne() error {
	rf, err := readReplay(*fFile)
	if err != nil {
		return err
	}
	if _, err := installReplayPool(rf); err != nil {
		return err
	}
	if *fK < 0 || *fK >= len(pool.ops) {
		return fmt.Errorf("bad -k")
	}
	r, st := soloOp(pool.ops[*fK], true)
	fmt.Printf("%016x %d\n%s", r.hash, st, r.text)
	return nil
}

// modeReplay re-executes a replay file.  Exit status: 1 and a VIOLATION line if the
// violation reproduces, 0 if the property held on the replayed execution.
func modeReplay() error {
	rf, err := readReplay(*fFile)
	if err != nil {
		return err
	}
	if rf.Prefix != nil && rf.Mode == "burst" {
		return replayPrefix(rf)
	}
	if rf.Prefix != nil && len(rf.Runs) == 0 {
		return replayPrefixSerial(rf)
	}
	cases, err := installReplayPool(rf)
	if err != nil {
		return err
	}
	refs, refTexts, err := freshRefs(*fFile)
	if err != nil {
		return err
	}
	attempts := 1
	if rf.Mode == "burst" {
		attempts = 20
	}
	for a := 0; a < attempts; a++ {
		var f *failure
		var res *runResult
		var ri int
		if rf.Mode == "burst" {
			for i, c := range cases {
				r := execBurst(c.plan, refs)
				for j := range r.Fails {
					if r.Fails[j].Oracle != "HARNESS" {
						f, ri, res = &r.Fails[j], i, r
						break
					}
				}
				if f != nil {
					break
				}
			}
		} else {
			f, ri, res = runCases(cases, refs, "", true)
		}
		if f == nil {
			continue
		}
		fmt.Printf("replayed %s: run %d of %d: oracle %s fails at task %d op %d: %s\n  %s\n", *fFile, ri+1, len(cases), f.Oracle, f.Task, f.Op, f.Key, f.Detail)
		if res != nil && len(res.Texts) > 0 && failClass(f.Oracle) == "outcome" {
			// locate the text of the failing op
			pos := 0
			pl := cases[ri].plan
			for t := 0; t < f.Task && t < len(pl.Tasks); t++ {
				pos += len(pl.Tasks[t].Ops)
			}
			pos += f.Op
			if pos < len(res.Texts) {
				k := pl.Tasks[f.Task].Ops[f.Op].Key
				fmt.Printf("  reference (solo, fresh process) vs replayed:\n%s", indent(firstDiff(refTexts[pool.opIdx[k]], res.Texts[pos]), "    "))
			}
		}
		same := failClass(f.Oracle) == failClass(rf.Expect.Oracle)
		fmt.Printf("REPRODUCED oracle=%s same_class_as_recorded=%v attempt=%d\n", f.Oracle, same, a+1)
		fmt.Printf("VIOLATION property=C18 replay=%s\n", *fFile)
		os.Exit(1)
	}
	if rf.Prefix != nil && rf.Mode == "serial" && *fRoot != "" {
		fmt.Printf("the explicit run alone does not fail; re-executing the worker's history (seeded prefix)\n")
		return replayPrefixSerial(rf)
	}
	fmt.Printf("NOT-REPRODUCED: every oracle held on the replayed execution (%d attempt(s))\n", attempts)
	return nil
}

// replayPrefix re-executes the seeded bursts of a worker process up to the one that failed.
// The race detector (exit 66) or a fatal runtime error ends the process when it reproduces.
func replayPrefix(rf *ReplayFile) error {
	p := rf.Prefix
	if *fRoot == "" {
		return fmt.Errorf("a seeded-prefix replay needs -root")
	}
	extraInputs = p.Extra
	if err := buildPool(*fRoot, p.Seed, p.Corrupt, p.Churn, p.Large); err != nil {
		return err
	}
	// the plan generator consults the reference table (site statistics): recompute it
	dir, err := os.MkdirTemp("", "prefix-")
	if err != nil {
		return err
	}
	defer os.RemoveAll(dir)
	childArgs := []string{"-root", *fRoot, "-seed", fmt.Sprint(p.Seed), "-corrupt", fmt.Sprint(p.Corrupt), "-churn", fmt.Sprint(p.Churn), "-large", fmt.Sprint(p.Large)}
	if len(p.Extra) > 0 {
		ef := filepath.Join(dir, "extra.json")
		if err := writeJSON(ef, p.Extra); err != nil {
			return err
		}
		childArgs = append(childArgs, "-extra", ef)
	}
	refs, err := refsViaChildren(dir, childArgs)
	if err != nil {
		return err
	}
	n := 0
	for attempt := 0; attempt < 3; attempt++ {
		for idx := p.First; idx <= p.Last+20*p.Stride; idx += p.Stride {
			r := runSeed(p.Seed^0xb0057, idx)
			plan, _ := genBurstPlan(r, refs)
			for ti := range plan.Tasks {
				for oi := range plan.Tasks[ti].Ops {
					plan.Tasks[ti].Ops[oi].Scribble = false
				}
			}
			res := execBurst(plan, refs)
			n++
			for _, f := range res.Fails {
				if f.Oracle != "HARNESS" {
					fmt.Printf("replayed %s: burst %d: oracle %s: %s\n", *fFile, idx, f.Oracle, f.Detail)
					fmt.Printf("REPRODUCED oracle=%s attempt=%d\nVIOLATION property=C18 replay=%s\n", f.Oracle, attempt+1, *fFile)
					os.Exit(1)
				}
			}
		}
	}
	fmt.Printf("NOT-REPRODUCED: %d bursts re-executed, no race report and every oracle held\n", n)
	return nil
}

// modeTrace (debugging aid): the sequence of yield sites of operation -k of a replay file,
// one line per yield: in-operation yield number (as used by [task, n, op] segments), site.
func modeTrace() error {
	rf, err := readReplay(*fFile)
	if err != nil {
		return err
	}
	if _, err := installReplayPool(rf); err != nil {
		return err
	}
	if *fK < 0 || *fK >= len(pool.ops) {
		return fmt.Errorf("bad -k")
	}
	for i, site := range soloTrace(pool.ops[*fK]) {
		fmt.Printf("%d\t%s\n", i+2, rt.SiteName[site])
	}
	return nil
}

// modeMinimise: delta debugging where every candidate is judged by re-executing it in a
// fresh process against references computed one call per fresh process - exactly what
// `replay` does - so that state left behind in a long-lived process cannot influence it.
func modeMinimise() error {
	rf, err := readReplay(*fFile)
	if err != nil {
		return err
	}
	cases, err := installReplayPool(rf)
	if err != nil {
		return err
	}
	refs, _, err := freshRefs(*fFile)
	if err != nil {
		return err
	}
	keyRefs := map[string]uint64{}
	for i, k := range pool.ops {
		keyRefs[k.String()] = refs.e[i].hash
	}
	dir, err := os.MkdirTemp(filepath.Dir(*fOut), "min-")
	if err != nil {
		return err
	}
	defer os.RemoveAll(dir)
	kr := filepath.Join(dir, "keyrefs.json")
	if err := writeJSON(kr, keyRefs); err != nil {
		return err
	}
	cls := failClass(rf.Expect.Oracle)
	n := 0
	check := func(cs []runCase) bool {
		n++
		inputs, runs := casesToRF(cs)
		c := *rf
		c.Inputs, c.Runs = inputs, runs
		tmp := filepath.Join(dir, fmt.Sprintf("cand-%d.json", n))
		if err := writeJSON(tmp, &c); err != nil {
			return false
		}
		defer os.Remove(tmp)
		cmd := exec.Command(os.Args[0], "-mode", "replaycheck", "-file", tmp, "-keyrefs", kr, "-class", cls)
		err := cmd.Run()
		if ee, ok := err.(*exec.ExitError); ok {
			return ee.ExitCode() == 1
		}
		return false
	}
	secs := *fSeconds
	if secs <= 0 {
		secs = 40
	}
	m := &minimiser{cls: cls, budget: 1200, deadline: time.Now().Add(time.Duration(secs * float64(time.Second))), check: check}
	before := m.size(cases)
	out := m.minimise(cases)
	inputs, runs := casesToRF(out)
	rf.Inputs, rf.Runs = inputs, runs
	rf.Minimised = fmt.Sprintf("delta debugging, every candidate re-executed in a fresh process: size %d -> %d in %d executions", before, m.size(out), m.execs)
	return writeJSON(*fOut, rf)
}

// modeReplayCheck: exit 1 iff the replay file fails an oracle of class -class against the
// given references.
func modeReplayCheck() error {
	rf, err := readReplay(*fFile)
	if err != nil {
		return err
	}
	cases, err := installReplayPool(rf)
	if err != nil {
		return err
	}
	b, err := os.ReadFile(*fKeyRefs)
	if err != nil {
		return err
	}
	keyRefs := map[string]uint64{}
	if err := json.Unmarshal(b, &keyRefs); err != nil {
		return err
	}
	t := &refTable{e: make([]refEntry, len(pool.ops))}
	for i, k := range pool.ops {
		h, ok := keyRefs[k.String()]
		if !ok {
			return fmt.Errorf("no reference for %s", k)
		}
		t.e[i] = refEntry{hash: h, steps: 2000, have: true}
	}
	if f, _, _ := runCases(cases, t, *fClass, false); f != nil {
		os.Exit(1)
	}
	return nil
}

func indent(s, pre string) string {
	lines := strings.Split(strings.TrimRight(s, "\n"), "\n")
	for i := range lines {
		lines[i] = pre + lines[i]
	}
	return strings.Join(lines, "\n") + "\n"
}
