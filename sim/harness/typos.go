package main

// Typo sweep: for the leading words of the corpus statements (statement keywords and the
// object kind after CREATE / ALTER / DROP ...), every adjacent transposition - and, in the
// thorough tier, every single-letter substitution of the first word - in an otherwise valid
// statement.  Near-misses of keywords are what "did you mean ...?" style error paths react
// to; they were missing from the pool (second held-out wave, DESIGN §6).

import "strings"

func typoSweep(inputs []input, corpus []int, substitutions bool) []input {
	type lead struct {
		w1, w2 string
	}
	seen := map[lead]bool{}
	seenText := map[string]bool{}
	var out []input
	add := func(src input, text string) {
		if seenText[text] || len(out) > 4000 {
			return
		}
		seenText[text] = true
		out = append(out, input{text: text, origin: "typo:" + src.origin, entry: src.entry, paths: src.paths, family: src.family, class: clsCorrupt})
	}
	for _, ci := range corpus {
		src := inputs[ci]
		ws, _, _ := scanWords(src.text)
		if len(ws) < 2 || len(src.text) > 400 {
			continue
		}
		l := lead{strings.ToUpper(src.text[ws[0].lo:ws[0].hi]), strings.ToUpper(src.text[ws[1].lo:ws[1].hi])}
		if seen[l] {
			continue
		}
		seen[l] = true
		for wi := 0; wi < 2; wi++ {
			w := ws[wi]
			word := src.text[w.lo:w.hi]
			for j := 0; j+1 < len(word); j++ {
				if word[j] == word[j+1] {
					continue
				}
				b := []byte(word)
				b[j], b[j+1] = b[j+1], b[j]
				add(src, src.text[:w.lo]+string(b)+src.text[w.hi:])
			}
			if substitutions && wi == 0 {
				for j := 0; j < len(word); j++ {
					for c := byte('A'); c <= 'Z'; c++ {
						if c == word[j]&^0x20 {
							continue
						}
						b := []byte(word)
						b[j] = c
						add(src, src.text[:w.lo]+string(b)+src.text[w.hi:])
					}
				}
			}
		}
	}
	return out
}
