// Package verifsync provides cooperative stand-ins for the blocking primitives of package
// sync, used only in the *serial* (baton-passing) mode of the simulator and only if the tree
// under test uses them (/verif/DESIGN.md §2.2).  A task that has to wait is parked *in the
// simulator*; the scheduler never picks it until the primitive is released; all tasks parked
// = deadlock.  The -race burst binary always uses the real package sync.
//
// Exactly one goroutine runs at any time in serial mode (baton holder, or the harness's main
// goroutine between runs), so the state below needs no atomics.
package verifsync

import (
	rt "VERIFMOD/verifsimrt"
)

type Locker interface {
	Lock()
	Unlock()
}

func wait(key any, what string) {
	h := rt.Hook
	if h == nil || !h.Active() {
		panic("verifsync: " + what + " would block outside a simulated task")
	}
	h.Block(key, what)
}

func wake(key any) {
	if h := rt.Hook; h != nil {
		h.Wake(key)
	}
}

// ---- Mutex --------------------------------------------------------------------------------

type Mutex struct{ held bool }

func (m *Mutex) Lock() {
	for m.held {
		wait(m, "Mutex.Lock")
	}
	m.held = true
}

func (m *Mutex) TryLock() bool {
	if m.held {
		return false
	}
	m.held = true
	return true
}

func (m *Mutex) Unlock() {
	if !m.held {
		panic("sync: unlock of unlocked mutex")
	}
	m.held = false
	wake(m)
}

// ---- RWMutex ------------------------------------------------------------------------------

type RWMutex struct {
	w       bool
	readers int
	wwait   int
}

func (m *RWMutex) Lock() {
	m.wwait++
	for m.w || m.readers > 0 {
		wait(m, "RWMutex.Lock")
	}
	m.wwait--
	m.w = true
}

func (m *RWMutex) TryLock() bool {
	if m.w || m.readers > 0 {
		return false
	}
	m.w = true
	return true
}

func (m *RWMutex) Unlock() {
	if !m.w {
		panic("sync: Unlock of unlocked RWMutex")
	}
	m.w = false
	wake(m)
}

func (m *RWMutex) RLock() {
	// like the real one: a waiting writer blocks new readers
	for m.w || m.wwait > 0 {
		wait(m, "RWMutex.RLock")
	}
	m.readers++
}

func (m *RWMutex) TryRLock() bool {
	if m.w || m.wwait > 0 {
		return false
	}
	m.readers++
	return true
}

func (m *RWMutex) RUnlock() {
	if m.readers <= 0 {
		panic("sync: RUnlock of unlocked RWMutex")
	}
	m.readers--
	if m.readers == 0 {
		wake(m)
	}
}

type rlocker RWMutex

func (r *rlocker) Lock()   { (*RWMutex)(r).RLock() }
func (r *rlocker) Unlock() { (*RWMutex)(r).RUnlock() }

func (m *RWMutex) RLocker() Locker { return (*rlocker)(m) }

// ---- Once ----------------------------------------------------------------------------------

type Once struct {
	done    bool
	running bool
}

func (o *Once) Do(f func()) {
	if o.done {
		return
	}
	for o.running {
		wait(o, "Once.Do")
	}
	if o.done {
		return
	}
	o.running = true
	defer func() {
		o.done = true
		o.running = false
		wake(o)
	}()
	f()
}

func OnceFunc(f func()) func() {
	var once Once
	var valid bool
	var p any
	g := func() {
		defer func() {
			p = recover()
			if !valid {
				panic(p)
			}
		}()
		f()
		f = nil
		valid = true
	}
	return func() {
		once.Do(g)
		if !valid {
			panic(p)
		}
	}
}

func OnceValue[T any](f func() T) func() T {
	var once Once
	var valid bool
	var p any
	var result T
	g := func() {
		defer func() {
			p = recover()
			if !valid {
				panic(p)
			}
		}()
		result = f()
		f = nil
		valid = true
	}
	return func() T {
		once.Do(g)
		if !valid {
			panic(p)
		}
		return result
	}
}

func OnceValues[T1, T2 any](f func() (T1, T2)) func() (T1, T2) {
	var once Once
	var valid bool
	var p any
	var r1 T1
	var r2 T2
	g := func() {
		defer func() {
			p = recover()
			if !valid {
				panic(p)
			}
		}()
		r1, r2 = f()
		f = nil
		valid = true
	}
	return func() (T1, T2) {
		once.Do(g)
		if !valid {
			panic(p)
		}
		return r1, r2
	}
}

// ---- Pool ----------------------------------------------------------------------------------

// Pool is a deterministic LIFO shared by all tasks; the simulator's gc fault empties every
// pool (DrainPools), which models the collector clearing sync.Pool.
type Pool struct {
	New   func() any
	items []any
	reg   bool
}

var pools []*Pool

func (p *Pool) Put(x any) {
	if x == nil {
		return
	}
	if !p.reg {
		p.reg = true
		pools = append(pools, p)
	}
	p.items = append(p.items, x)
}

func (p *Pool) Get() any {
	if n := len(p.items); n > 0 {
		x := p.items[n-1]
		p.items[n-1] = nil
		p.items = p.items[:n-1]
		return x
	}
	if p.New != nil {
		return p.New()
	}
	return nil
}

// DrainPools empties every simulated pool.
func DrainPools() {
	for _, p := range pools {
		for i := range p.items {
			p.items[i] = nil
		}
		p.items = p.items[:0]
	}
}

// ---- Map -----------------------------------------------------------------------------------

// Map is a plain map; Range visits in insertion order rotated by a counter (the real
// sync.Map promises no order, so a result that depends on it is not a function of the
// arguments).
type Map struct {
	m     map[any]any
	order []any
	calls int
}

func (m *Map) Load(key any) (any, bool) {
	v, ok := m.m[key]
	return v, ok
}

func (m *Map) Store(key, value any) { m.Swap(key, value) }

func (m *Map) Clear() {
	m.m = nil
	m.order = nil
}

func (m *Map) LoadOrStore(key, value any) (any, bool) {
	if v, ok := m.m[key]; ok {
		return v, true
	}
	m.Swap(key, value)
	return value, false
}

func (m *Map) LoadAndDelete(key any) (any, bool) {
	v, ok := m.m[key]
	if ok {
		m.Delete(key)
	}
	return v, ok
}

func (m *Map) Delete(key any) {
	if _, ok := m.m[key]; !ok {
		return
	}
	delete(m.m, key)
	for i, k := range m.order {
		if k == key {
			m.order = append(m.order[:i:i], m.order[i+1:]...)
			break
		}
	}
}

func (m *Map) Swap(key, value any) (any, bool) {
	if m.m == nil {
		m.m = map[any]any{}
	}
	old, ok := m.m[key]
	if !ok {
		m.order = append(m.order, key)
	}
	m.m[key] = value
	return old, ok
}

func (m *Map) CompareAndSwap(key, old, new any) bool {
	if v, ok := m.m[key]; ok && v == old {
		m.m[key] = new
		return true
	}
	return false
}

func (m *Map) CompareAndDelete(key, old any) bool {
	if v, ok := m.m[key]; ok && v == old {
		m.Delete(key)
		return true
	}
	return false
}

func (m *Map) Range(f func(key, value any) bool) {
	keys := append([]any(nil), m.order...)
	n := len(keys)
	if n == 0 {
		return
	}
	m.calls++
	start := m.calls % n
	for i := 0; i < n; i++ {
		k := keys[(start+i)%n]
		v, ok := m.m[k]
		if !ok {
			continue
		}
		if !f(k, v) {
			return
		}
	}
}
