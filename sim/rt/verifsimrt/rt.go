// Package verifsimrt is the runtime side of the verification instrumentation
// (/verif/DESIGN.md §2.2).  It is copied into the *scratch copy* of the module under test;
// it is never part of /repo.
//
// Every statement of the instrumented library is preceded by a call of Y.  With no
// simulator installed Y is a nil check.
package verifsimrt

// Sim is what a simulator implements.  All methods are called on the goroutine that executes
// library code.
type Sim interface {
	// Yield is a cooperative scheduling point in front of a statement.
	Yield(site uint32)
	// Block parks the calling task until Wake(key) (simulated sync primitives only).
	// It returns when the task has been rescheduled; the caller re-checks its condition.
	Block(key any, what string)
	// Wake makes every task blocked on key runnable again.
	Wake(key any)
	// Active reports whether the calling goroutine is a simulated task of a running
	// serial simulation (so that simulated sync primitives must be used).
	Active() bool
}

// Hook is the installed simulator (nil: none).  It is written only while no library code
// runs (between runs), by the harness.
var Hook Sim

// Y is the yield point inserted by the instrumenter.
func Y(site uint32) {
	if h := Hook; h != nil {
		h.Yield(site)
	}
}

// Getg returns an opaque identity of the calling goroutine (its g pointer).  It is stable
// for the life of the goroutine and is used for nothing but equality tests.
func Getg() uintptr
